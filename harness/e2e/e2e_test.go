//go:build verif

package e2e

import (
	"context"
	"errors"
	"fmt"
	"net"
	"net/http"
	"regexp"
	"strconv"
	"strings"
	"sync"
	"sync/atomic"
	"testing"
	"testing/synctest"
	"time"

	sse "github.com/tmaxmax/go-sse"
	"pgregory.net/rapid"

	"verif/harness/oracle"
	"verif/harness/stats"
)

func TestMain(m *testing.M) { stats.Main(m) }

const ruleC05 = "rapid-generated end-to-end runs inside one testing/synctest bubble: a real http.Server{Handler: sse.Server{Provider: Joe{Replayer}}} and a real sse.Client over http.Transport, connected through net.Pipe wrapped in a cutting conn. Replayer in {Finite, Valid} x {automatic, manual IDs} large enough for everything published - or, for 40% of the finite ones, a ring of only 2..6 events that wraps, with a publish step skipped whenever it would evict the event the client has to resume from; 3..12 messages (multi-line data with CR/LF/CRLF, colons, leading spaces, field look-alikes; optional type, comments, Retry; 7% carry a further data line of 1000..20000 bytes; header-safe manual IDs); 30% of the servers subscribe the client to one topic through OnSession and a third of the messages go to another one; 20% of the clients have an http.Client.Timeout of 20..400 virtual ms, i.e. cut their own connections with net/http's timeout error; after 'connect, publish m0, wait' a script of 5..40 actions: publish next | arm a cut after n more response bytes (n drawn up to the size of what will be written, so cuts land in the status line, headers, chunk framing, inside and between events) | cut now | end the handler from the server side once the session has sent something | virtual sleep | wait for quiescence. Oracle: after the script, with no more cuts and a virtual sleep beyond the maximum backoff, the callback log equals exactly (ID, type, data) of m0, m1, ... in order; every reconnect carried Last-Event-Id == ID of the last event delivered before it; Joe did not panic; Connect returns the context's error on cancel - 25% of the clients use a context cancelled with a cause - without a further OnRetry, and the bubble ends with no goroutine left. Non-trivial: at least one abrupt cut strictly inside an event's bytes and at least one message published while no session was subscribed. Distinct: FNV-64 of the JSON of the case."

// ---- case ---------------------------------------------------------------------------------

type MsgSpec struct {
	Data  []stats.B `json:"data"`
	Type  string    `json:"type,omitempty"`
	Cmt   string    `json:"cmt,omitempty"`
	Retry int       `json:"retryms,omitempty"`
	Long  int       `json:"long,omitempty"`  // a further data line of this many bytes
	Other bool      `json:"other,omitempty"` // Topics cases: published to a topic the client is not subscribed to (it must never see it)
}

type Step struct {
	Kind string `json:"kind"` // pub | arm | cutnow | srvend | sleep | wait
	N    int    `json:"n,omitempty"`
}

type Case struct {
	Valid        bool      `json:"valid"`
	Auto         bool      `json:"auto"`
	Msgs         []MsgSpec `json:"msgs"`
	Steps        []Step    `json:"steps"`
	IDs          []string  `json:"ids,omitempty"` // manual IDs
	CapAdd       int       `json:"capadd,omitempty"`
	RemoteCloses bool      `json:"remotecloses,omitempty"`
	// SmallCap > 0 (finite replayer): the ring holds only this many events - fewer than are
	// published in total, so it wraps - and a publish step is skipped whenever it would evict
	// the event the client has to resume from ("large enough to hold what is published while
	// a client is away" is then kept by construction).
	SmallCap int `json:"smallcap,omitempty"`
	// Cause: the client's request context is cancelled with a cause (WithCancelCause) at the end
	Cause bool `json:"cause,omitempty"`
	// Topics: the server's OnSession subscribes the client to topic "a"; messages go to "a" or (Other) to "b"
	Topics bool `json:"topics,omitempty"`
	// ClientTimeoutMs > 0: http.Client.Timeout - the client itself cuts every connection after that
	// long (virtual time), with net/http's timeout error while the request context stays alive
	ClientTimeoutMs int `json:"clienttimeoutms,omitempty"`
}

var dataPool = []string{"x", "hello", "a\nb", "a\r\nb", "a\rb", ": colon", " lead", "id: 9", "data: z", "retry: 1", "event: e", "", "\n", "trail\n", "é€", "a:b", "multi\n\nline"}
var idPool = []string{"1", "2", "a", "b7", "x-1", "ID_3", "9.5", "zz", "k", "m", "n0", "q"}

func gen(t *rapid.T) Case {
	var c Case
	c.Valid = rapid.Bool().Draw(t, "valid")
	c.Auto = rapid.Bool().Draw(t, "auto")
	n := 3 + stats.Pick(t, 10, "nmsgs")
	for i := 0; i < n; i++ {
		var m MsgSpec
		nd := 1 + stats.Pick(t, 3, "ndata")
		if i > 0 && stats.Pct(t, "nodata") >= 90 {
			nd = 0 // a message without data lines still carries an ID: the client sees an event with empty data
		}
		for j := 0; j < nd; j++ {
			m.Data = append(m.Data, stats.B(stats.From(t, dataPool, "data")))
		}
		if i == 0 || stats.Pct(t, "hastype") < 30 {
			m.Type = stats.From(t, []string{"t", "update", ""}, "type")
		}
		if stats.Pct(t, "hascmt") < 25 {
			m.Cmt = stats.From(t, []string{"c", "keep\nalive"}, "cmt")
		}
		if stats.Pct(t, "hasretry") < 12 {
			m.Retry = 1 + stats.Pick(t, 4, "retry")
		}
		if stats.Pct(t, "haslong") >= 93 {
			m.Long = stats.From(t, []int{1000, 4090, 4096, 5000, 9000, 20000}, "long")
		}
		c.Msgs = append(c.Msgs, m)
		c.IDs = append(c.IDs, fmt.Sprintf("%s%d", stats.From(t, idPool, "id"), i))
	}
	// make sure message 0 has data that yields a visible event
	c.Msgs[0].Data = append(c.Msgs[0].Data, "first")
	ns := 5 + stats.Pick(t, 36, "nsteps")
	for i := 0; i < ns; i++ {
		var s Step
		switch k := stats.Pct(t, "step"); {
		case k < 30:
			s.Kind = "pub"
		case k < 55:
			s.Kind = "arm"
			switch stats.Pick(t, 4, "armkind") {
			case 3:
				s.N = stats.Pick(t, 25000, "huge")
			case 0:
				s.N = stats.Pick(t, 12, "small")
			case 1:
				s.N = stats.Pick(t, 200, "mid")
			default:
				s.N = stats.Pick(t, 600, "large")
			}
		case k < 63:
			s.Kind = "cutnow"
		case k < 71:
			s.Kind = "srvend"
		case k < 83:
			s.Kind = "sleep"
			s.N = stats.Pick(t, 80, "sleep")
		default:
			s.Kind = "wait"
		}
		c.Steps = append(c.Steps, s)
	}
	c.CapAdd = stats.Pick(t, 3, "capadd")
	c.RemoteCloses = rapid.Bool().Draw(t, "remotecloses")
	c.Cause = stats.Pct(t, "ctxcause") < 25
	if stats.Pct(t, "topics") < 30 {
		c.Topics = true
		for i := 1; i < len(c.Msgs); i++ {
			c.Msgs[i].Other = stats.Pct(t, "othertopic") < 35
		}
	}
	if stats.Pct(t, "clienttimeout") < 20 {
		c.ClientTimeoutMs = stats.From(t, []int{20, 100, 400}, "clienttimeoutms")
	}
	if !c.Valid && stats.Pct(t, "smallcap") < 40 {
		c.SmallCap = 2 + stats.Pick(t, 5, "smallcapn")
	}
	return c
}

// yRuns matches the filler of long data lines in failure messages.
var yRuns = regexp.MustCompile(`y{17,}`)

// ---- plumbing -----------------------------------------------------------------------------

type pipeListener struct {
	ch     chan net.Conn
	closed chan struct{}
	once   sync.Once
}

func (l *pipeListener) Accept() (net.Conn, error) {
	select {
	case c := <-l.ch:
		return c, nil
	case <-l.closed:
		return nil, net.ErrClosed
	}
}
func (l *pipeListener) Close() error   { l.once.Do(func() { close(l.closed) }); return nil }
func (l *pipeListener) Addr() net.Addr { return &net.TCPAddr{} }

// cutter owns the fault plan of the transport: budget = response bytes the client may still
// read before the connection is torn down (-1 unlimited).
type cutter struct {
	mu           sync.Mutex
	budget       int
	cur          *cutConn
	cuts         int
	readTotal    int // response bytes read on the current connection
	cutAt        []int
	remoteCloses bool // every second cut closes only the server's end
}

type cutConn struct {
	net.Conn
	c    *cutter
	peer net.Conn
	read int
	dead bool
}

var errCut = errors.New("harness: connection cut")

// kill tears the connection down: either both ends at once (the client sees a closed
// connection) or only the server's end (the client sees the peer closing in mid-response,
// which the chunked body reader reports as io.ErrUnexpectedEOF).
func (c *cutConn) kill() {
	if !c.dead {
		c.dead = true
		c.c.cuts++
		c.c.cutAt = append(c.c.cutAt, c.read)
		if c.c.cuts%2 == 1 || !c.c.remoteCloses {
			c.Conn.Close()
		}
		c.peer.Close()
	}
}

func (c *cutConn) Read(p []byte) (int, error) {
	c.c.mu.Lock()
	b := c.c.budget
	if b == 0 {
		c.kill()
		c.c.budget = -1
		c.c.mu.Unlock()
		return 0, errCut
	}
	c.c.mu.Unlock()
	if b > 0 && len(p) > b {
		p = p[:b]
	}
	n, err := c.Conn.Read(p)
	c.c.mu.Lock()
	c.read += n
	if c.c.budget > 0 {
		c.c.budget -= n
		if c.c.budget < 0 {
			c.c.budget = 0
		}
	}
	c.c.mu.Unlock()
	return n, err
}

type countW struct {
	http.ResponseWriter
	n  *int
	mu *sync.Mutex
}

func (c countW) Write(p []byte) (int, error) {
	n, err := c.ResponseWriter.Write(p)
	c.mu.Lock()
	*c.n += n
	c.mu.Unlock()
	return n, err
}
func (c countW) Flush() { c.ResponseWriter.(http.Flusher).Flush() }

type rtFunc func(*http.Request) (*http.Response, error)

func (f rtFunc) RoundTrip(r *http.Request) (*http.Response, error) { return f(r) }

var (
	panicMu  sync.Mutex
	joePanic string
)

func init() {
	sse.VerifPanic = func(_ *sse.Joe, v any, stack []byte) {
		panicMu.Lock()
		joePanic = fmt.Sprintf("%v\n%s", v, stack)
		panicMu.Unlock()
	}
}

type want struct{ id, typ, data string }

func check(t *testing.T, c Case) (v *stats.Verdict) {
	v = &stats.Verdict{Size: len(c.Steps)}
	panicMu.Lock()
	joePanic = ""
	panicMu.Unlock()
	defer func() {
		if r := recover(); r != nil {
			v.Failf("bubble", "the bubble did not end cleanly: %v", r)
		}
	}()
	synctest.Test(t, func(t *testing.T) {
		var rep sse.Replayer
		if c.Valid {
			r, _ := sse.NewValidReplayer(100000*time.Hour, c.Auto)
			rep = r
		} else {
			n := len(c.Msgs) + 2 + c.CapAdd
			if c.SmallCap > 0 {
				n = c.SmallCap
			}
			rep, _ = sse.NewFiniteReplayer(n, c.Auto)
		}
		joe := &sse.Joe{Replayer: rep}
		srv := &sse.Server{Provider: joe}
		if c.Topics {
			srv.OnSession = func(http.ResponseWriter, *http.Request) ([]string, bool) { return []string{"a"}, true }
		}

		var mu sync.Mutex
		var serverCancel context.CancelFunc
		sent := new(int)
		sessions, active := 0, 0
		var hdrs []string
		hs := &http.Server{Handler: http.HandlerFunc(func(w http.ResponseWriter, r *http.Request) {
			ctx, cancel := context.WithCancel(r.Context())
			mu.Lock()
			serverCancel = cancel
			sent = new(int)
			mySent := sent
			sessions++
			active++
			hdrs = append(hdrs, r.Header.Get("Last-Event-Id"))
			mu.Unlock()
			srv.ServeHTTP(countW{w, mySent, &mu}, r.WithContext(ctx))
			mu.Lock()
			active--
			mu.Unlock()
			cancel()
		})}
		ln := &pipeListener{ch: make(chan net.Conn), closed: make(chan struct{})}
		go hs.Serve(ln) //nolint:errcheck
		cut := &cutter{budget: -1, remoteCloses: c.RemoteCloses}
		tr := &http.Transport{DisableKeepAlives: true, DialContext: func(ctx context.Context, _, _ string) (net.Conn, error) {
			cl, sv := net.Pipe()
			select {
			case ln.ch <- sv:
			case <-ctx.Done():
				return nil, ctx.Err()
			}
			cc := &cutConn{Conn: cl, c: cut, peer: sv}
			cut.mu.Lock()
			cut.cur = cc
			cut.mu.Unlock()
			return cc, nil
		}}

		ctx, cancel := context.WithCancel(context.Background())
		if c.Cause {
			cc, ccancel := context.WithCancelCause(context.Background())
			ctx, cancel = cc, func() { ccancel(errors.New("e2e: the cause the client's context is cancelled with")) }
		}
		var cancelled, retryAfterCancel atomic.Bool
		req, _ := http.NewRequestWithContext(ctx, http.MethodGet, "http://e2e.invalid/events", nil)
		var got []want
		var expectHdr []string // expected Last-Event-Id of each request, from the client's point of view
		client := &sse.Client{
			HTTPClient: &http.Client{Transport: rtFunc(func(r *http.Request) (*http.Response, error) {
				last := ""
				if len(got) > 0 {
					last = got[len(got)-1].id
				}
				expectHdr = append(expectHdr, last)
				return tr.RoundTrip(r)
			}), Timeout: time.Duration(c.ClientTimeoutMs) * time.Millisecond},
			Backoff: sse.Backoff{InitialInterval: time.Millisecond, MaxInterval: 5 * time.Millisecond},
			OnRetry: func(error, time.Duration) {
				if cancelled.Load() {
					retryAfterCancel.Store(true)
				}
			},
		}
		conn := client.NewConnection(req)
		conn.SubscribeToAll(func(e sse.Event) { got = append(got, want{e.LastEventID, e.Type, e.Data}) })
		res := make(chan error, 1)
		go func() { res <- conn.Connect() }()
		synctest.Wait()

		var wants []want
		var wantIdx []int // index (among everything published) of each message the client has to see
		published := 0
		pubWhileAway := false
		pub := func() string {
			if published >= len(c.Msgs) {
				return ""
			}
			i := published
			published++
			ms := c.Msgs[i]
			m := &sse.Message{}
			var mod oracle.Msg
			for _, d := range ms.Data {
				m.AppendData(string(d))
				mod.Chunks = append(mod.Chunks, oracle.Chunk{Text: string(d)})
			}
			if ms.Long > 0 {
				d := strings.Repeat("y", ms.Long)
				m.AppendData(d)
				mod.Chunks = append(mod.Chunks, oracle.Chunk{Text: d})
			}
			if ms.Cmt != "" {
				m.AppendComment(ms.Cmt)
			}
			id := strconv.Itoa(i)
			if !c.Auto {
				id = c.IDs[i]
				m.ID = sse.ID(id)
			}
			if ms.Type != "" {
				m.Type = sse.Type(ms.Type)
			}
			m.Retry = time.Duration(ms.Retry) * time.Millisecond
			mu.Lock()
			if active == 0 {
				pubWhileAway = true
			}
			mu.Unlock()
			var err error
			switch {
			case !c.Topics:
				err = srv.Publish(m)
			case ms.Other:
				err = srv.Publish(m, "b")
			default:
				err = srv.Publish(m, "a")
			}
			if err != nil {
				return fmt.Sprintf("Publish #%d failed: %v", i, err)
			}
			if c.Topics && ms.Other {
				v.Class("published-to-another-topic")
				return ""
			}
			wants = append(wants, want{id, ms.Type, strings.Join(mod.DataLines(), "\n")})
			wantIdx = append(wantIdx, i)
			return ""
		}
		fail := func(format string, a ...any) {
			if v.Fail == "" {
				v.Failf("", "%s", yRuns.ReplaceAllStringFunc(fmt.Sprintf(format, a...), func(r string) string { return fmt.Sprintf("<%d*y>", len(r)) }))
			}
		}
		if f := pub(); f != "" {
			fail("%s", f)
		}
		synctest.Wait()
		if len(got) != 1 {
			// precondition of the property: the client has received at least one event
			fail("precondition: the first event was not received before any fault: got %q", got)
		}
		cutInsideEvent := false
		for _, s := range c.Steps {
			if v.Fail != "" {
				break
			}
			switch s.Kind {
			case "pub":
				if c.SmallCap > 0 {
					synctest.Wait()
					// the event the client resumes from (the last one it has seen) must stay in the ring
					if len(got) == 0 || len(got) > len(wantIdx) || published-wantIdx[len(got)-1] > c.SmallCap-1 {
						v.Class("publish-skipped:would-evict-the-resume-point")
						continue
					}
					if published >= c.SmallCap {
						v.Class("ring-wrapped")
					}
				}
				if f := pub(); f != "" {
					fail("%s", f)
				}
			case "arm":
				cut.mu.Lock()
				cut.budget = s.N
				cut.mu.Unlock()
				v.Class("cut-armed")
			case "cutnow":
				cut.mu.Lock()
				if cut.cur != nil && !cut.cur.dead {
					cut.cur.kill()
					v.Class("cut-now")
				}
				cut.mu.Unlock()
			case "srvend":
				mu.Lock()
				if serverCancel != nil && *sent > 0 {
					serverCancel()
					v.Class("server-side-end")
				}
				mu.Unlock()
			case "sleep":
				time.Sleep(time.Duration(s.N) * 100 * time.Microsecond)
			case "wait":
				synctest.Wait()
			}
		}
		// settle: no more faults, wait beyond the maximum backoff, twice
		for i := 0; i < 3; i++ {
			cut.mu.Lock()
			cut.budget = -1
			cut.mu.Unlock()
			time.Sleep(time.Second)
			synctest.Wait()
		}
		// classification of the cuts: strictly inside an event?
		cut.mu.Lock()
		ncuts := cut.cuts
		for _, at := range cut.cutAt {
			if at > 150 { // beyond status line and headers: inside the chunked event stream
				cutInsideEvent = true
			}
		}
		cut.mu.Unlock()
		if v.Fail == "" {
			if len(got) != len(wants) {
				fail("the client observed %d events, %d were published\n got  %q\n want %q\n Last-Event-Id headers seen by the server: %q (cuts: %d)", len(got), len(wants), got, wants, hdrs, ncuts)
			} else {
				for i := range got {
					if got[i] != wants[i] {
						fail("event %d observed as %q, published as %q\n got  %q\n want %q\n headers %q", i, got[i], wants[i], got, wants, hdrs)
						break
					}
				}
			}
		}
		if v.Fail == "" {
			mu.Lock()
			if len(hdrs) > len(expectHdr) {
				fail("the server saw %d requests, the client sent %d", len(hdrs), len(expectHdr))
			}
			// requests that were cut before their headers reached the server are missing from hdrs;
			// every header the server did see must be one the client was expected to send, in order
			j := 0
			for _, h := range hdrs {
				for j < len(expectHdr) && expectHdr[j] != h {
					j++
				}
				if j == len(expectHdr) {
					fail("the server saw Last-Event-Id %q, which is not the ID of the last event delivered before that request (client-side expectations %q, server saw %q)", h, expectHdr, hdrs)
					break
				}
				j++
			}
			mu.Unlock()
		}
		panicMu.Lock()
		if joePanic != "" {
			v.Fail = ""
			v.Failf("joe-panic", "Joe's goroutine panicked (the server would have died): %s", joePanic)
		}
		panicMu.Unlock()

		select {
		case err := <-res:
			fail("Connect returned %v although its context was alive and retries are unlimited\n got %q\n headers %q", err, got, hdrs)
			res <- err
		default:
		}
		cancelled.Store(true)
		cancel()
		select {
		case err := <-res:
			var ce *sse.ConnectionError
			if !errors.Is(err, context.Canceled) || errors.As(err, &ce) {
				fail("the context was cancelled (with a cause: %v) but Connect returned %v, not the context's error\n got %q\n headers %q", c.Cause, err, got, hdrs)
			}
			if retryAfterCancel.Load() {
				fail("OnRetry was called after the request context had been cancelled (with a cause: %v)", c.Cause)
			}
		case <-time.After(time.Minute):
			fail("Connect did not return after its context was cancelled")
		}
		_ = srv.Shutdown(context.Background())
		hs.Close()
		tr.CloseIdleConnections()
		if ncuts > 0 {
			v.Class("cuts>0")
		}
		if sessions >= 3 {
			v.Class("sessions>=3")
		}
		if pubWhileAway {
			v.Class("published-while-away")
		}
		if cutInsideEvent {
			v.Class("cut-inside-stream")
		}
		v.Count("sessions", int64(sessions))
		v.Count("cuts", int64(ncuts))
		v.NonTrivial = cutInsideEvent && pubWhileAway
	})
	return v
}

func TestC05(t *testing.T) {
	stats.Run(t, stats.Prop[Case]{ID: "C05", Rule: ruleC05, Gen: gen, Check: check})
}

func FuzzC05(f *testing.F) {
	stats.Fuzz(f, stats.Prop[Case]{ID: "C05", Rule: ruleC05, Gen: gen, Check: check})
}
