// Package gen holds the generators and helper types shared by several harness packages
// (streams from the SSE grammar and its neighbourhood, read plans, a chunking reader).
package gen

import (
	"io"
	"strings"

	"pgregory.net/rapid"

	"verif/harness/stats"
)

// Tok is a piece of a generated stream: S repeated Rep times (Rep 0 means once). Padding
// runs are kept as counts so that cases stay small in replay files and samples.
type Tok struct {
	S   stats.B `json:"s"`
	Rep int     `json:"rep,omitempty"`
}

func Build(toks []Tok) []byte {
	var b strings.Builder
	for _, t := range toks {
		n := t.Rep
		if n <= 0 {
			n = 1
		}
		for i := 0; i < n; i++ {
			b.WriteString(string(t.S))
		}
	}
	return []byte(b.String())
}

var LineEnds = []string{"\n", "\r", "\r\n"}

var Soup = []string{
	// field names and look-alikes
	"data", "event", "id", "retry", "data:", "data: ", "event: ", "id: ", "retry: ", "id:", "event:", "retry:",
	"Data", "DATA: ", "datax", "dat", " data", "data ", "ids", "i", "retry ", "event\t", "dataa: ", "retr", "events: ",
	// separators
	":", ": ", " ", "  ", "::", ": :",
	// BOM, NUL, non-ASCII, invalid UTF-8
	"\xEF\xBB\xBF", "\x00", "\xEF\xBB", "\xBF", "é", "€", "😀", "\xff", "\xc3", "\xe2\x82", "\xf0\x9f\x98",
	// payload
	"x", "y", "hello", "a b", "msg", "1", "0", "5", "10", "007", "250", "+", "-", "+5", "-0", "1.5", "1e3", "0x10", " 7", "7 ", "９",
	"\t", "\v", "\f", " ", "\u0085",
}

// Stream draws a token Soup: line ends are frequent enough that most streams hold
// several lines and events.
var Stream = rapid.Custom(func(t *rapid.T) []Tok {
	n := stats.Pick(t, 25, "ntok")
	toks := make([]Tok, 0, n)
	for i := 0; i < n; i++ {
		k := stats.Pct(t, "tokkind")
		switch {
		case k < 38:
			toks = append(toks, Tok{S: stats.B(stats.From(t, LineEnds, "nl"))})
		case k < 97:
			toks = append(toks, Tok{S: stats.B(stats.From(t, Soup, "tok"))})
		default:
			// arbitrary short byte string
			toks = append(toks, Tok{S: stats.B(rapid.SliceOfN(rapid.Byte(), 1, 4).Draw(t, "raw"))})
		}
	}
	return toks
})

var (
	Payloads   = []string{"x", "y", "hello", "a b", "msg", " lead", "trail ", ":", "a:b", ": x", "id: 9", "data: z", "é", "€", "😀", "\xff", "\xc3", "\xEF\xBB\xBF", "", "", "\t", "0", "1"}
	IDValues   = []string{"1", "2", "abc", "", "x y", " 7", "a\x00b", "\x00", "é", "9:9", "\xff", "007"}
	RetryGood  = []string{"0", "5", "10", "250", "007", "1000", "999999999999", "123456789012345678"}
	RetryBad   = []string{"+5", "-0", "-1", "1.5", "", "1e3", " 7", "7 ", "９", "0x10", "5s", "1_000"}
	NameForms  = []string{": ", ":", ": ", "", ":  ", " : "} // after the field name; "" = no colon at all
	Lookalikes = []string{"Data: x", "DATA: x", "datax: x", "dat: x", " data: x", "data : x", "ids: 1", "i: 1", "retry : 5", "event\t: a", "dataa: x", "events: a", "retries: 1", "\xEF\xBB\xBFdata: b", "message: m", "id\x00: 1"}
)

// Lines draws a stream as a sequence of lines from the SSE grammar and its neighbourhood;
// most streams hold several events, valid and invalid retry fields, IDs with NUL, comments.
var Lines = rapid.Custom(func(t *rapid.T) []Tok {
	var toks []Tok
	if rapid.IntRange(0, 6).Draw(t, "bom") == 1 {
		toks = append(toks, Tok{S: "\xEF\xBB\xBF"})
	}
	n := stats.Pick(t, 15, "nlines")
	nl := stats.From(t, LineEnds, "mainnl")
	for i := 0; i < n; i++ {
		var line string
		form := stats.From(t, NameForms, "form")
		switch k := stats.Pct(t, "linekind"); {
		case k < 28: // blank
		case k < 48:
			line = "data" + form + stats.From(t, Payloads, "payload")
		case k < 57:
			line = "id" + form + stats.From(t, IDValues, "idv")
		case k < 65:
			line = "event" + form + stats.From(t, Payloads, "typ")
		case k < 72:
			line = "retry" + form + stats.From(t, RetryGood, "retry")
		case k < 77:
			line = "retry" + form + stats.From(t, RetryBad, "badretry")
		case k < 83:
			line = ":" + stats.From(t, Payloads, "comment")
		case k < 91:
			line = stats.From(t, Lookalikes, "lookalike")
		default:
			for j := rapid.IntRange(1, 3).Draw(t, "nSoup"); j > 0; j-- {
				line += stats.From(t, Soup, "Souptok")
			}
		}
		if line != "" {
			toks = append(toks, Tok{S: stats.B(line)})
		}
		end := nl
		if rapid.IntRange(0, 4).Draw(t, "othernl") == 0 {
			end = stats.From(t, LineEnds, "nl")
		}
		if i == n-1 && rapid.IntRange(0, 3).Draw(t, "unterminated") == 1 {
			break
		}
		toks = append(toks, Tok{S: stats.B(end)})
	}
	return toks
})

// AnyStream mixes the grammar-shaped and the Soup generator.
var AnyStream = rapid.Custom(func(t *rapid.T) []Tok {
	if rapid.IntRange(0, 9).Draw(t, "shape") < 6 {
		return Lines.Draw(t, "lines")
	}
	return Stream.Draw(t, "Soup")
})

// padSizes are run lengths that make a block straddle the scanner's buffer sizes
// (4096 initial, doubling; 65536 default limit).
func Pad(t *rapid.T, around ...int) Tok {
	base := rapid.SampledFrom(around).Draw(t, "padbase")
	unit := rapid.SampledFrom([]string{"x", "é", "\r\n: c", "\ndata: y"}).Draw(t, "padunit")
	// the run is about base BYTES long, whatever the unit
	n := (base+rapid.IntRange(-12, 8).Draw(t, "paddelta"))/len(unit) + rapid.IntRange(-1, 1).Draw(t, "padfine")
	if n < 1 {
		n = 1
	}
	return Tok{S: stats.B(unit), Rep: n}
}

// Plan describes how the stream is cut into reads: chunk sizes are used cyclically;
// an empty plan delivers the whole stream in one read.
type Plan struct {
	Sizes       []int `json:"sizes,omitempty"`
	EOFWithData bool  `json:"eofwithdata,omitempty"` // the last chunk is returned together with io.EOF
}

var GenPlan = rapid.Custom(func(t *rapid.T) Plan {
	var p Plan
	switch rapid.IntRange(0, 5).Draw(t, "plankind") {
	case 0: // whole
	case 1:
		p.Sizes = []int{1}
	case 2:
		p.Sizes = rapid.SliceOfN(rapid.IntRange(1, 4), 1, 6).Draw(t, "sizes")
	case 3:
		p.Sizes = rapid.SliceOfN(rapid.IntRange(1, 40), 1, 6).Draw(t, "sizes")
	case 4:
		p.Sizes = []int{rapid.SampledFrom([]int{2, 3, 5, 7, 4095, 4096, 4097}).Draw(t, "size")}
	default:
		p.Sizes = rapid.SliceOfN(rapid.SampledFrom([]int{1, 2, 3, 4096, 100000}), 1, 4).Draw(t, "sizes")
	}
	p.EOFWithData = rapid.IntRange(0, 4).Draw(t, "eofwithdata") == 1
	return p
})

// ChunkReader delivers data according to a Plan and counts what was pulled.
type ChunkReader struct {
	Data   []byte
	off    int
	Plan   Plan
	i      int
	Pulled int
	Reads  int
	EndErr error // returned at the end instead of io.EOF (nil: io.EOF)
	done   bool
	After  int // Read calls after the terminal error was returned
}

func (r *ChunkReader) Read(p []byte) (int, error) {
	r.Reads++
	end := r.EndErr
	if end == nil {
		end = io.EOF
	}
	if r.done {
		r.After++
		return 0, end
	}
	if r.off >= len(r.Data) {
		r.done = true
		return 0, end
	}
	n := len(r.Data) - r.off
	if len(r.Plan.Sizes) > 0 {
		if s := r.Plan.Sizes[r.i%len(r.Plan.Sizes)]; s < n {
			n = s
		}
		r.i++
	}
	if n > len(p) {
		n = len(p)
	}
	copy(p, r.Data[r.off:r.off+n])
	r.off += n
	r.Pulled += n
	if r.off >= len(r.Data) && r.Plan.EOFWithData {
		r.done = true
		return n, end
	}
	return n, nil
}

// cuts returns the set of offsets at which the plan cuts a stream of length n.
func (p Plan) Cuts(n int) []int {
	if len(p.Sizes) == 0 {
		return nil
	}
	var out []int
	off, i := 0, 0
	for off < n {
		off += p.Sizes[i%len(p.Sizes)]
		i++
		if off < n {
			out = append(out, off)
		}
		if len(out) > 4096 {
			break
		}
	}
	return out
}
