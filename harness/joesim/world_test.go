//go:build verif

package joesim

import (
	"context"
	"errors"
	"fmt"
	"math/big"
	"runtime"
	"sort"
	"strconv"
	"strings"
	"sync"
	"sync/atomic"
	"testing"
	"testing/synctest"
	"time"

	sse "github.com/tmaxmax/go-sse"
)

// ---------------------------------------------------------------------------------------
// The log: one totally ordered record list, appended under one mutex.
// ---------------------------------------------------------------------------------------

type Rec struct {
	K      string // subcall subret pubcall pubret shutcall shutret cancelreq put putret replaybegin replayend send flush panic hook
	Sub    int
	Pub    int
	Shut   int
	Ser    string // message serial
	ID     string // message ID (put result / delivered message)
	IDSet  bool
	Err    error
	CtxErr error  // shutret: Err() of the Shutdown call's context when the call returned
	Replay bool   // send/flush made during a Replay call
	Point  string // hook point
	Actor  string
	Panic  bool
	At     time.Duration // virtual time of the record
}

func (r Rec) String() string {
	var b strings.Builder
	b.WriteString(r.K)
	switch r.K {
	case "subcall", "subret", "cancelreq", "replaybegin", "replayend", "send", "flush":
		fmt.Fprintf(&b, " s%d", r.Sub)
	case "pubcall", "pubret":
		fmt.Fprintf(&b, " p%d", r.Pub)
	case "shutcall", "shutret":
		fmt.Fprintf(&b, " sh%d", r.Shut)
	case "hook":
		fmt.Fprintf(&b, " %s@%s", r.Actor, r.Point)
	}
	if r.Ser != "" {
		b.WriteString(" " + r.Ser)
	}
	if r.IDSet {
		fmt.Fprintf(&b, " id=%q", r.ID)
	}
	if r.Replay {
		b.WriteString(" (replay)")
	}
	if r.Err != nil {
		fmt.Fprintf(&b, " err=%v", r.Err)
	}
	if r.Panic {
		b.WriteString(" PANIC")
	}
	return b.String()
}

var (
	errWriter = errors.New("harness: injected writer failure")
	errReplay = errors.New("harness: injected replay failure")
	errPut    = errors.New("harness: injected put failure")
)

type parkedG struct {
	name   string
	resume chan struct{}
}

type world struct {
	t0      time.Time
	freeRun bool  // never park; perturb instead
	tape    []int // perturbation tape (the scenario's picks)
	tapePos atomic.Int64
	mu      sync.Mutex
	log     []Rec
	parked  []*parkedG
	free    bool
	keys    map[any]string
	trace   []string
	maxPar  int // max number of goroutines parked at one step (a real choice point when >= 2)
}

func (w *world) reg(key any, name string) {
	w.mu.Lock()
	w.keys[key] = name
	w.mu.Unlock()
}

func (w *world) add(r Rec) {
	r.At = time.Since(w.t0)
	w.mu.Lock()
	w.log = append(w.log, r)
	w.mu.Unlock()
}

// park blocks the calling goroutine until the scheduler releases it.
func (w *world) park(name string) {
	if w.freeRun {
		w.perturb()
		return
	}
	w.mu.Lock()
	if w.free {
		w.mu.Unlock()
		return
	}
	p := &parkedG{name, make(chan struct{})}
	w.parked = append(w.parked, p)
	w.mu.Unlock()
	<-p.resume
}

// perturb yields or spins for a moment, as told by the tape.
func (w *world) perturb() {
	if len(w.tape) == 0 {
		return
	}
	v := w.tape[int(w.tapePos.Add(1))%len(w.tape)]
	switch {
	case v%4 == 0:
	case v%4 == 1:
		runtime.Gosched()
	default:
		for i := 0; i < (v>>2)*40; i++ {
			spinSink.Add(1)
		}
		if v%4 == 3 {
			runtime.Gosched()
		}
	}
}

var spinSink atomic.Int64

var (
	curMu sync.Mutex
	cur   *world
)

func current() *world {
	curMu.Lock()
	defer curMu.Unlock()
	return cur
}

func init() {
	sse.VerifHook = func(key any, point string) {
		w := current()
		if w == nil {
			return
		}
		w.mu.Lock()
		actor, ok := w.keys[key]
		w.mu.Unlock()
		if !ok {
			return
		}
		w.add(Rec{K: "hook", Actor: actor, Point: point})
		w.park(actor + "@" + point)
	}
	sse.VerifPanic = func(_ *sse.Joe, v any, stack []byte) {
		if w := current(); w != nil {
			w.add(Rec{K: "panic", Ser: fmt.Sprint(v), Panic: true})
		}
	}
}

// ---------------------------------------------------------------------------------------
// Recording, fault-injecting subscriber writer and replayer wrapper.
// ---------------------------------------------------------------------------------------

type writer struct {
	w        *world
	idx      int
	spec     SubSpec
	sends    int
	flushes  int
	cancel   context.CancelFunc
	inReplay bool
}

func serialOf(m *sse.Message) string {
	if m == nil {
		return "<nil>"
	}
	s := m.String()
	i := strings.Index(s, "data: ")
	if i < 0 {
		return "<nodata>"
	}
	s = s[i+6:]
	if j := strings.IndexByte(s, '\n'); j >= 0 {
		s = s[:j]
	}
	return s
}

func (c *writer) fail(kind string, r Rec) error {
	r.Err = errWriter
	c.w.add(r)
	if c.spec.FailCancel {
		c.w.add(Rec{K: "cancelreq", Sub: c.idx})
		c.cancel()
	}
	return errWriter
}

func (c *writer) Send(m *sse.Message) error {
	c.w.park(fmt.Sprintf("loop@send(s%d)", c.idx))
	k := c.sends
	c.sends++
	r := Rec{K: "send", Sub: c.idx, Ser: serialOf(m), Replay: c.inReplay}
	if m != nil {
		r.ID, r.IDSet = m.ID.String(), m.ID.IsSet()
	}
	if c.spec.FailKind == "send" && k == c.spec.FailAt {
		return c.fail("send", r)
	}
	c.w.add(r)
	return nil
}

func (c *writer) Flush() error {
	c.w.park(fmt.Sprintf("loop@flush(s%d)", c.idx))
	k := c.flushes
	c.flushes++
	r := Rec{K: "flush", Sub: c.idx, Replay: c.inReplay}
	if c.spec.FailKind == "flush" && k == c.spec.FailAt {
		return c.fail("flush", r)
	}
	c.w.add(r)
	return nil
}

// recReplayer records every call Joe makes on its replayer (it is the linearisation
// witness: Joe calls Put for every accepted message before the fan-out and Replay at
// registration) and injects the scenario's replayer faults.
type recReplayer struct {
	w       *world
	sc      *Scenario
	inner   sse.Replayer
	puts    int
	replays int
}

var errPanicValue = errors.New("harness: injected replayer panic (an error value)")

// doPanic panics the way replayers really do: with a string, with an error value, or with a
// genuine runtime error (which also implements error).
func (r *recReplayer) doPanic(where string) {
	switch r.sc.PanicKind {
	case "error":
		panic(fmt.Errorf("in %s: %w", where, errPanicValue))
	case "runtime":
		var m map[string]int
		m[where] = 1 // assignment to entry in nil map
	}
	panic("harness: injected replayer panic in " + where)
}

func (r *recReplayer) Put(m *sse.Message, topics []string) (*sse.Message, error) {
	r.w.park("loop@put")
	k := r.puts
	r.puts++
	ser := serialOf(m)
	r.w.add(Rec{K: "put", Ser: ser})
	if k == r.sc.PutPanicAt {
		r.w.add(Rec{K: "putret", Ser: ser, Panic: true})
		r.doPanic("Put")
	}
	if k == r.sc.PutErrAt {
		r.w.add(Rec{K: "putret", Ser: ser, Err: errPut})
		return nil, errPut
	}
	if r.inner == nil {
		r.w.add(Rec{K: "putret", Ser: ser, ID: m.ID.String(), IDSet: m.ID.IsSet()})
		return m, nil
	}
	got, err := r.inner.Put(m, topics)
	rec := Rec{K: "putret", Ser: ser, Err: err}
	if got != nil {
		rec.ID, rec.IDSet = got.ID.String(), got.ID.IsSet()
	}
	r.w.add(rec)
	return got, err
}

func (r *recReplayer) Replay(sub sse.Subscription) error {
	wr := sub.Client.(*writer)
	r.w.park(fmt.Sprintf("loop@replay(s%d)", wr.idx))
	k := r.replays
	r.replays++
	r.w.add(Rec{K: "replaybegin", Sub: wr.idx, ID: sub.LastEventID.String(), IDSet: sub.LastEventID.IsSet()})
	if k == r.sc.ReplayPanicAt {
		r.w.add(Rec{K: "replayend", Sub: wr.idx, Panic: true})
		r.doPanic("Replay")
	}
	if wr.spec.ReplayErr {
		r.w.add(Rec{K: "replayend", Sub: wr.idx, Err: errReplay})
		return errReplay
	}
	var err error
	if r.inner != nil {
		wr.inReplay = true
		err = r.inner.Replay(sub)
		wr.inReplay = false
	}
	r.w.add(Rec{K: "replayend", Sub: wr.idx, Err: err})
	return err
}

// ---------------------------------------------------------------------------------------
// One execution of a scenario in a synctest bubble under the controlled scheduler.
// ---------------------------------------------------------------------------------------

type execution struct {
	log       []Rec
	trace     []string
	stuck     []string // actors that never returned
	bubble    string   // panic raised by synctest (deadlock / leaked goroutines)
	maxParked int
	msgTopics map[string][]string
	msgPub    map[string]int
	steps     int
	truncated bool
	optCounts []int // deviation mode: number of options at each step
}

type action struct {
	name string
	run  func()
}

func runScenario(t *testing.T, sc Scenario) (ex execution) { return runScenarioMode(t, sc, false) }

// runScenarioFree executes the scenario on the real scheduler (still inside a bubble, so
// that quiescence and deadlocks are decided exactly): nothing parks, every actor is started
// in schedule order and the hooks only perturb (Gosched / short spins taken from the
// schedule). Used by the -race passes at several GOMAXPROCS.
func runScenarioFree(t *testing.T, sc Scenario) (ex execution) { return runScenarioMode(t, sc, true) }

func runScenarioMode(t *testing.T, sc Scenario, freeRun bool) (ex execution) {
	ex.msgTopics = map[string][]string{}
	ex.msgPub = map[string]int{}
	defer func() {
		if r := recover(); r != nil {
			ex.bubble = fmt.Sprint(r)
		}
		curMu.Lock()
		cur = nil
		curMu.Unlock()
	}()
	synctest.Test(t, func(t *testing.T) {
		w := &world{keys: map[any]string{}, freeRun: freeRun, tape: sc.Picks, t0: time.Now()}
		curMu.Lock()
		cur = w
		curMu.Unlock()

		j := &sse.Joe{}
		var rr *recReplayer
		if sc.Replayer != "nil" {
			rr = &recReplayer{w: w, sc: &sc}
			switch sc.Replayer {
			case "finite":
				rr.inner, _ = sse.NewFiniteReplayer(sc.Cap, sc.Auto)
			case "valid":
				ttl := 1000 * time.Hour
				if sc.TTLms > 0 {
					ttl = time.Duration(sc.TTLms) * time.Millisecond
				}
				rr.inner, _ = sse.NewValidReplayer(ttl, sc.Auto)
			}
			j.Replayer = rr
		}
		w.reg(j, "loop")

		var amu sync.Mutex
		running := map[string]bool{}
		begin := func(n string) { amu.Lock(); running[n] = true; amu.Unlock() }
		end := func(n string) { amu.Lock(); delete(running, n); amu.Unlock() }

		serialCounter := 0
		newMessage := func(pub int, topics []string, bad ...bool) *sse.Message {
			m := &sse.Message{}
			ser := fmt.Sprintf("m%d", serialCounter)
			serialCounter++
			m.AppendData(ser)
			isBad := len(bad) > 0 && bad[0]
			if (sc.Replayer == "finite" || sc.Replayer == "valid") && sc.Auto == isBad {
				// manual mode needs an ID, automatic mode must not have one; a "bad" message breaks that
				m.ID = sse.ID("id-" + ser)
				if sc.EmptyIDAt > 0 && serialCounter == sc.EmptyIDAt && !isBad {
					m.ID = sse.ID("") // a set, empty ID is a valid manual ID
				}
			}
			ex.msgTopics[ser] = topics
			ex.msgPub[ser] = pub
			return m
		}

		// prefill: sequential publishes before anything else (free running, nothing parks)
		w.free = true
		for i := 0; i < sc.Prefill; i++ {
			topics := []string{topicPool[i%len(topicPool)]}
			if i%3 == 0 {
				topics = append(topics, topicPool[(i+1)%len(topicPool)])
			}
			m := newMessage(-1, topics, i+1 == sc.PrefillBad)
			w.add(Rec{K: "pubcall", Pub: -1, Ser: serialOf(m)})
			err := j.Publish(m, aliased(topics))
			w.add(Rec{K: "pubret", Pub: -1, Ser: serialOf(m), Err: err})
		}
		synctest.Wait()
		w.mu.Lock()
		w.free = false
		w.mu.Unlock()

		var actions []action
		cancels := make([]context.CancelFunc, len(sc.Subs))
		for i, s := range sc.Subs {
			i, s := i, s
			ctx, cancel := context.WithCancel(context.Background())
			cancels[i] = cancel
			name := fmt.Sprintf("sub%d", i)
			w.reg(ctx, name)
			actions = append(actions, action{"start " + name, func() {
				sub := sse.Subscription{Client: &writer{w: w, idx: i, spec: s, cancel: cancel}, Topics: s.Topics}
				sub.LastEventID = resolveID(w, sc, s)
				begin(name)
				go func() {
					defer end(name)
					w.add(Rec{K: "subcall", Sub: i, ID: sub.LastEventID.String(), IDSet: sub.LastEventID.IsSet()})
					err := j.Subscribe(ctx, sub)
					w.add(Rec{K: "subret", Sub: i, Err: err})
				}()
			}})
		}
		for pi, p := range sc.Pubs {
			pi, p := pi, p
			name := fmt.Sprintf("pub%d", pi)
			var msgs []*sse.Message
			for k, tp := range p.Msgs {
				isBad := false
				for _, b := range p.Bad {
					if b == k {
						isBad = true
					}
				}
				m := newMessage(pi, tp, isBad)
				w.reg(m, name)
				msgs = append(msgs, m)
			}
			actions = append(actions, action{"start " + name, func() {
				begin(name)
				go func() {
					defer end(name)
					for k, m := range msgs {
						w.add(Rec{K: "pubcall", Pub: pi, Ser: serialOf(m)})
						err := j.Publish(m, aliased(p.Msgs[k]))
						w.add(Rec{K: "pubret", Pub: pi, Ser: serialOf(m), Err: err})
					}
				}()
			}})
		}
		for n, ci := range sc.Cancels {
			ci := ci
			actions = append(actions, action{fmt.Sprintf("cancel sub%d #%d", ci, n), func() {
				w.add(Rec{K: "cancelreq", Sub: ci})
				cancels[ci]()
			}})
		}
		for n, ms := range sc.Sleeps {
			ms := ms
			actions = append(actions, action{fmt.Sprintf("sleep %dms #%d", ms, n), func() {
				time.Sleep(time.Duration(ms) * time.Millisecond)
			}})
		}
		var shutCancels []context.CancelFunc
		for k, sh := range sc.Shutdowns {
			k, sh := k, sh
			var ctx context.Context
			var cancel context.CancelFunc
			if strings.Contains(sh.Ctx, "cause") {
				// a context that carries a cancellation cause: Err() is still context.Canceled
				c, cc := context.WithCancelCause(context.Background())
				ctx, cancel = c, func() { cc(errShutCause) }
			} else {
				ctx, cancel = context.WithCancel(context.Background())
			}
			shutCancels = append(shutCancels, cancel)
			name := fmt.Sprintf("shut%d", k)
			w.reg(ctx, name)
			actions = append(actions, action{"start " + name, func() {
				if sh.Ctx == "expired" || sh.Ctx == "expired-cause" {
					cancel()
				}
				begin(name)
				go func() {
					defer end(name)
					w.add(Rec{K: "shutcall", Shut: k})
					err := j.Shutdown(ctx)
					w.add(Rec{K: "shutret", Shut: k, Err: err, CtxErr: ctx.Err()})
				}()
			}})
			if sh.Ctx == "cancel-later" || sh.Ctx == "cause-later" {
				actions = append(actions, action{"cancel ctx of " + name, func() { cancel() }})
			}
		}

		// warm-up: the first WarmSubs subscribers subscribe without interference, so that the
		// schedule proper starts with registered subscribers
		if sc.WarmSubs > 0 {
			w.mu.Lock()
			w.free = true
			w.mu.Unlock()
			n := sc.WarmSubs
			if n > len(sc.Subs) {
				n = len(sc.Subs)
			}
			for i := 0; i < n; i++ {
				actions[i].run()
				synctest.Wait()
			}
			actions = actions[n:]
			w.mu.Lock()
			w.free = false
			w.mu.Unlock()
		}

		const maxSteps = 700
		step := 0
		if freeRun {
			// start every action in schedule order, without waiting for quiescence in between
			for len(actions) > 0 {
				k := 0
				if step < len(sc.Picks) {
					k = sc.Picks[step] % len(actions)
				}
				step++
				a := actions[k]
				actions = append(actions[:k], actions[k+1:]...)
				w.trace = append(w.trace, a.name)
				a.run()
				w.perturb()
			}
		}
		for ; step < maxSteps && !freeRun; step++ {
			synctest.Wait()
			w.mu.Lock()
			sort.Slice(w.parked, func(a, b int) bool { return w.parked[a].name < w.parked[b].name })
			np := len(w.parked)
			if np > w.maxPar {
				w.maxPar = np
			}
			w.mu.Unlock()
			opts := np + len(actions)
			if opts == 0 {
				break
			}
			k := 0
			if sc.DevMode {
				for _, d := range sc.Dev {
					if d.S == step {
						k = d.C % opts
					}
				}
				ex.optCounts = append(ex.optCounts, opts)
			} else if step < len(sc.Picks) {
				k = sc.Picks[step] % opts
			}
			if k < np {
				w.mu.Lock()
				p := w.parked[k]
				w.parked = append(w.parked[:k], w.parked[k+1:]...)
				w.mu.Unlock()
				w.trace = append(w.trace, p.name)
				close(p.resume)
			} else {
				a := actions[k-np]
				actions = append(actions[:k-np], actions[k-np+1:]...)
				w.trace = append(w.trace, a.name)
				a.run()
			}
		}
		ex.steps = step
		ex.truncated = step == maxSteps

		// Epilogue: stop parking, let everything run, make sure a Shutdown has been called,
		// and require that every call returns (quiescence decides, not a timeout).
		synctest.Wait()
		w.mu.Lock()
		w.free = true
		for _, p := range w.parked {
			close(p.resume)
		}
		w.parked = nil
		w.mu.Unlock()
		synctest.Wait()
		w.add(Rec{K: "shutcall", Shut: -1})
		err := j.Shutdown(context.Background())
		w.add(Rec{K: "shutret", Shut: -1, Err: err})
		synctest.Wait()
		amu.Lock()
		for n := range running {
			ex.stuck = append(ex.stuck, n)
		}
		amu.Unlock()
		sort.Strings(ex.stuck)
		w.mu.Lock()
		ex.log = append([]Rec(nil), w.log...)
		ex.trace = append([]string(nil), w.trace...)
		ex.maxParked = w.maxPar
		w.mu.Unlock()
		// let stuck goroutines go so that the bubble can end (their being stuck is already recorded)
		for _, c := range cancels {
			c()
		}
		for _, c := range shutCancels {
			c()
		}
	})
	return ex
}

// resolveID turns a subscriber's ID selector into a concrete Last-Event-ID, relative to
// the puts the run has produced so far.
func resolveID(w *world, sc Scenario, s SubSpec) sse.EventID {
	if s.IDKind == "" {
		return sse.EventID{}
	}
	w.mu.Lock()
	var ids []string
	for _, r := range w.log {
		if r.K == "putret" && r.Err == nil && !r.Panic && r.IDSet {
			ids = append(ids, r.ID)
		}
	}
	w.mu.Unlock()
	never := func() sse.EventID {
		if sc.Auto {
			switch s.IDK % 3 {
			case 0:
				return sse.ID(strconv.Itoa(len(ids) + 1000 + s.IDK))
			case 2:
				// a never-issued 20-digit number just above 2^64 (equal to an issued ID modulo 2^64)
				return sse.ID(new(big.Int).Add(new(big.Int).Lsh(big.NewInt(1), 64), big.NewInt(int64(max(len(ids)-2-s.IDK/3, 0)))).String())
			}
			return sse.ID(fmt.Sprintf("never-%d", s.IDK))
		}
		return sse.ID(fmt.Sprintf("never-%d", s.IDK))
	}
	window := len(ids)
	if sc.Replayer == "finite" && window > sc.Cap {
		window = sc.Cap
	}
	switch s.IDKind {
	case "never":
		return never()
	case "newest":
		if len(ids) == 0 {
			return never()
		}
		return sse.ID(ids[len(ids)-1])
	case "evicted":
		if len(ids) <= window {
			return never()
		}
		ev := ids[:len(ids)-window]
		return sse.ID(ev[len(ev)-1-s.IDK%len(ev)])
	default: // put: the k-th still buffered one
		if window == 0 {
			return never()
		}
		buf := ids[len(ids)-window:]
		return sse.ID(buf[s.IDK%len(buf)])
	}
}

func fmtLog(l []Rec) string {
	var b strings.Builder
	for i, r := range l {
		if r.K == "hook" {
			continue
		}
		fmt.Fprintf(&b, "  %3d %s\n", i, r.String())
	}
	return b.String()
}

var errShutCause = errors.New("harness: the cause the Shutdown context was cancelled with")

// aliasBacking is one array that every topic list which is a prefix of widePool is a view of:
// callers commonly publish with slices of one array, so consecutive messages may carry
// topic slices that start at the same address and differ only in length. Read-only.
var aliasBacking = append([]string(nil), widePool...)

func aliased(topics []string) []string {
	if len(topics) == 0 || len(topics) > len(widePool) {
		return topics
	}
	for i, tp := range topics {
		if tp != widePool[i] {
			return topics
		}
	}
	return aliasBacking[:len(topics):len(topics)]
}
