//go:build verif

package joesim

import (
	"testing"

	"pgregory.net/rapid"

	"verif/harness/stats"
)

func TestMain(m *testing.M) { stats.Main(m) }

// Scenario is a plain-data description of one concurrent history for Joe. Everything is
// drawn before the system under test runs; the schedule (Picks) is consumed modulo the
// number of options enabled at each step.
type Scenario struct {
	Replayer  string     `json:"replayer"` // nil | noop | finite | valid
	Cap       int        `json:"cap,omitempty"`
	Auto      bool       `json:"auto,omitempty"`
	Subs      []SubSpec  `json:"subs"`
	Pubs      []PubSpec  `json:"pubs"`
	Cancels   []int      `json:"cancels,omitempty"`   // cancel actions (subscriber index)
	Shutdowns []ShutSpec `json:"shutdowns,omitempty"` // Shutdown calls made by the scenario
	// replayer faults (wrapper level): index of the Put/Replay call that misbehaves, -1 none
	PutErrAt      int    `json:"puterrat"`
	PutPanicAt    int    `json:"putpanicat"`
	ReplayPanicAt int    `json:"replaypanicat"`
	PanicKind     string `json:"panickind,omitempty"`  // what the replayer panics with: "" a string | error | runtime (a real runtime error)
	Prefill       int    `json:"prefill,omitempty"`    // publishes made sequentially before anything else starts
	PrefillBad    int    `json:"prefillbad,omitempty"` // index+1 of the prefill publish that violates the replayer's ID mode (rejected by Put, still delivered live); 0 = none
	TTLms         int    `json:"ttlms,omitempty"`      // valid replayer: time-to-live in (virtual) ms; 0 = practically infinite
	Sleeps        []int  `json:"sleeps,omitempty"`     // sleep actions (virtual ms) the scheduler may take, so that buffered events expire
	EmptyIDAt     int    `json:"emptyidat,omitempty"`  // manual IDs: the message with this creation index carries the (valid) empty ID; 0 = none, else index+1
	WarmSubs      int    `json:"warmsubs,omitempty"`   // the first WarmSubs subscribers are started and run to quiescence (registered) before the schedule begins
	Picks         []int  `json:"picks"`
	// deviation mode (bounded enumeration): the scheduler takes option 0 at every step except
	// at the listed steps
	DevMode bool  `json:"devmode,omitempty"`
	Dev     []Dev `json:"dev,omitempty"`
}

// Dev is one deviation from the default schedule: at step S take option C (instead of 0).
type Dev struct {
	S int `json:"s"`
	C int `json:"c"`
}

type SubSpec struct {
	Topics     []string `json:"topics"`
	FailKind   string   `json:"failkind,omitempty"` // "" | send | flush
	FailAt     int      `json:"failat,omitempty"`   // index among this subscriber's Send (or Flush) calls
	FailCancel bool     `json:"failcancel,omitempty"`
	ReplayErr  bool     `json:"replayerr,omitempty"` // the replayer returns an error for this subscriber
	IDKind     string   `json:"idkind,omitempty"`    // "" (unset) | put | newest | evicted | never
	IDK        int      `json:"idk,omitempty"`
}

type PubSpec struct {
	Msgs [][]string `json:"msgs"`          // topics of each message, published in order by one goroutine
	Bad  []int      `json:"bad,omitempty"` // indexes of messages that violate the replayer's ID mode (Put must reject them)
}

type ShutSpec struct {
	Ctx string `json:"ctx"` // live | expired | cancel-later | expired-cause | cause-later (the last two: a context cancelled with a cause, whose Err() is still context.Canceled)
}

var topicPool = []string{"", "a", "b", "c"}

// widePool is the alphabet of the occasional wide topic set: 1..12 cyclically consecutive
// topics, ascending or descending (subscriptions and messages with many topics, unsorted).
var widePool = []string{"", "a", "b", "c", "d", "e", "f", "g", "h", "i", "j", "k"}

func genTopicSet(t *rapid.T) []string {
	if stats.Pct(t, "widetopics") >= 88 {
		n, start, desc := 1+stats.Pick(t, len(widePool), "nwide"), stats.Pick(t, len(widePool), "widestart"), rapid.Bool().Draw(t, "widedesc")
		out := make([]string, n)
		for i := range out {
			k := i
			if desc {
				k = n - 1 - i
			}
			out[k] = widePool[(start+i)%len(widePool)]
		}
		return out
	}
	mask := 1 + stats.Pick(t, 14, "topicmask")
	var out []string
	for i, tp := range topicPool {
		if mask&(1<<i) != 0 && len(out) < 3 {
			out = append(out, tp)
		}
	}
	return out
}

// profile biases the generator towards what a property needs.
type profile struct {
	name        string
	faults      int // percent of subscribers with a writer fault
	failCancel  int // percent of those whose failing call cancels their own context
	replayErr   int // percent of subscribers whose replay fails
	realRep     int // percent of scenarios with a real replayer
	resume      int // percent of subscribers presenting a Last-Event-ID
	shutdowns   []int
	repFaults   int // percent of scenarios with a Put/Replay error or panic
	cancels     int // max cancel actions
	minSubs     int
	prefillBias bool
	prefillPct  int // percent of real-replayer scenarios that get the long prefill (up to 3 x capacity, so that the ring wraps) although prefillBias is off
}

var profiles = map[string]profile{
	"C03": {name: "C03", faults: 10, failCancel: 30, replayErr: 0, realRep: 40, resume: 0, shutdowns: []int{0, 0, 0, 1, 2}, repFaults: 0, cancels: 2, minSubs: 1},
	"C04": {name: "C04", faults: 10, failCancel: 30, replayErr: 0, realRep: 100, resume: 80, shutdowns: []int{0, 0, 0, 1}, repFaults: 0, cancels: 1, minSubs: 1, prefillBias: true},
	"C06": {name: "C06", faults: 75, failCancel: 60, replayErr: 20, realRep: 40, resume: 20, shutdowns: []int{0, 0, 1, 1, 2}, repFaults: 5, cancels: 3, minSubs: 1},
	"C07": {name: "C07", faults: 15, failCancel: 40, replayErr: 5, realRep: 30, resume: 10, shutdowns: []int{1, 1, 2, 3}, repFaults: 5, cancels: 2, minSubs: 0},
	"C17": {name: "C17", faults: 50, failCancel: 30, replayErr: 10, realRep: 50, resume: 30, shutdowns: []int{0, 0, 0, 1}, repFaults: 60, cancels: 1, minSubs: 2, prefillPct: 40},
}

func genScenario(p profile) func(*rapid.T) Scenario {
	return func(t *rapid.T) Scenario {
		sc := Scenario{PutErrAt: -1, PutPanicAt: -1, ReplayPanicAt: -1}
		if stats.Pct(t, "realrep") < p.realRep {
			sc.Replayer = stats.From(t, []string{"finite", "finite", "valid"}, "repkind")
			sc.Cap = 2 + stats.Pick(t, 5, "cap")
			sc.Auto = rapid.Bool().Draw(t, "auto")
		} else {
			sc.Replayer = stats.From(t, []string{"noop", "noop", "noop", "nil"}, "repkind")
		}
		if sc.Replayer == "valid" && stats.Pct(t, "finitettl") < 50 {
			sc.TTLms = 5 + stats.Pick(t, 40, "ttlms")
			nsl := 1 + stats.Pick(t, 4, "nsleeps")
			for i := 0; i < nsl; i++ {
				sc.Sleeps = append(sc.Sleeps, 1+stats.Pick(t, sc.TTLms+5, "sleepms"))
			}
		}
		if (sc.Replayer == "finite" || sc.Replayer == "valid") && !sc.Auto && stats.Pct(t, "emptyid") < 30 {
			sc.EmptyIDAt = 1 + stats.Pick(t, 8, "emptyidat")
		}
		ns := p.minSubs + stats.Pick(t, 5-p.minSubs, "nsubs")
		for i := 0; i < ns; i++ {
			s := SubSpec{Topics: genTopicSet(t)}
			if stats.Pct(t, "hasfault") < p.faults {
				s.FailKind = stats.From(t, []string{"send", "send", "flush"}, "failkind")
				s.FailAt = stats.Pick(t, 4, "failat")
				s.FailCancel = stats.Pct(t, "failcancel") < p.failCancel
			}
			if sc.Replayer != "nil" && stats.Pct(t, "replayerr") < p.replayErr {
				s.ReplayErr = true
			}
			if (sc.Replayer == "finite" || sc.Replayer == "valid") && stats.Pct(t, "resume") < p.resume {
				s.IDKind = stats.From(t, []string{"put", "put", "put", "newest", "evicted", "never"}, "idkind")
				s.IDK = stats.Pick(t, 12, "idk")
			}
			sc.Subs = append(sc.Subs, s)
		}
		if ns > 0 && stats.Pct(t, "warm") < 65 {
			sc.WarmSubs = 1 + stats.Pick(t, ns, "warmsubs")
		}
		np := 1 + stats.Pick(t, 3, "npubs")
		for i := 0; i < np; i++ {
			nm := 1 + stats.Pick(t, 4, "nmsgs")
			var ps PubSpec
			for k := 0; k < nm; k++ {
				ps.Msgs = append(ps.Msgs, genTopicSet(t))
				if stats.Pct(t, "notopics") >= 96 {
					// no topics at all (nil or empty): Publish must refuse it with ErrNoTopic and nobody receives it
					ps.Msgs[k] = [][]string{nil, {}}[stats.Pick(t, 2, "notopicskind")]
				}
				if (sc.Replayer == "finite" || sc.Replayer == "valid") && stats.Pct(t, "badmsg") < 12 {
					ps.Bad = append(ps.Bad, k)
				}
			}
			sc.Pubs = append(sc.Pubs, ps)
		}
		if ns > 0 {
			nc := stats.Pick(t, p.cancels+1, "ncancels")
			for i := 0; i < nc; i++ {
				sc.Cancels = append(sc.Cancels, stats.Pick(t, ns, "cancelwho"))
			}
		}
		nsh := stats.From(t, p.shutdowns, "nshutdowns")
		for i := 0; i < nsh; i++ {
			sc.Shutdowns = append(sc.Shutdowns, ShutSpec{Ctx: stats.From(t, []string{"live", "live", "live", "live", "expired", "expired", "cancel-later", "cancel-later", "expired-cause", "cause-later"}, "shutctx")})
		}
		if sc.Replayer != "nil" && stats.Pct(t, "repfault") < p.repFaults {
			switch stats.Pick(t, 3, "repfaultkind") {
			case 0:
				sc.PutErrAt = stats.Pick(t, 4, "puterrat")
			case 1:
				sc.PutPanicAt = stats.Pick(t, 4, "putpanicat")
			default:
				sc.ReplayPanicAt = stats.Pick(t, 3, "replaypanicat")
			}
			sc.PanicKind = stats.From(t, []string{"", "error", "runtime"}, "panickind")
		}
		if p.prefillBias || ((sc.Replayer == "finite" || sc.Replayer == "valid") && stats.Pct(t, "longprefill") < p.prefillPct) {
			sc.Prefill = stats.Pick(t, 3*sc.Cap+1, "prefill")
		} else if stats.Pct(t, "hasprefill") < 25 {
			sc.Prefill = stats.Pick(t, 8, "prefill")
		}
		if sc.Prefill > 0 && (sc.Replayer == "finite" || sc.Replayer == "valid") && stats.Pct(t, "prefillbad") < 25 {
			sc.PrefillBad = 1 + stats.Pick(t, sc.Prefill, "prefillbadat")
		}
		// The schedule: uniform picks (rapid's own integer/slice generators are biased towards
		// small values and short slices, which would make almost every run sequential).
		np2 := 25 + stats.Pick(t, 100, "npicks")
		for i := 0; i < np2; i++ {
			sc.Picks = append(sc.Picks, stats.Bits(t, 6, "pick"))
		}
		return sc
	}
}

// genSmallScenario draws a small scenario for the deviation-bounded enumeration: few actors,
// so that ALL schedules with at most K deviations from the default one can be executed.
func genSmallScenario(p profile) func(*rapid.T) Scenario {
	return func(t *rapid.T) Scenario {
		sc := Scenario{PutErrAt: -1, PutPanicAt: -1, ReplayPanicAt: -1, DevMode: true}
		if stats.Pct(t, "realrep") < p.realRep {
			sc.Replayer = stats.From(t, []string{"finite", "valid"}, "repkind")
			sc.Cap = 2 + stats.Pick(t, 2, "cap")
			sc.Auto = rapid.Bool().Draw(t, "auto")
		} else {
			sc.Replayer = stats.From(t, []string{"noop", "noop", "nil"}, "norep")
		}
		// small scenarios are cheap to enumerate: give every profile a fair share of failing
		// subscribers (failures that also cancel are what produces the rare removal paths)
		if p.faults < 35 {
			p.faults, p.failCancel = 35, 50
		}
		ns := 1 + stats.Pick(t, 2, "nsubs")
		if p.minSubs > ns {
			ns = p.minSubs
		}
		for i := 0; i < ns; i++ {
			s := SubSpec{Topics: []string{stats.From(t, []string{"", "a"}, "topic")}}
			if stats.Pct(t, "hasfault") < p.faults {
				s.FailKind = stats.From(t, []string{"send", "flush"}, "failkind")
				s.FailAt = stats.Pick(t, 2, "failat")
				s.FailCancel = stats.Pct(t, "failcancel") < p.failCancel
			}
			if sc.Replayer != "nil" && stats.Pct(t, "replayerr") < p.replayErr {
				s.ReplayErr = true
			}
			if (sc.Replayer == "finite" || sc.Replayer == "valid") && stats.Pct(t, "resume") < p.resume {
				s.IDKind = stats.From(t, []string{"put", "newest", "never"}, "idkind")
				s.IDK = stats.Pick(t, 4, "idk")
			}
			sc.Subs = append(sc.Subs, s)
		}
		np := 1 + stats.Pick(t, 2, "npubs")
		for i := 0; i < np; i++ {
			nm := 1 + stats.Pick(t, 2, "nmsgs")
			var ps PubSpec
			for k := 0; k < nm; k++ {
				ps.Msgs = append(ps.Msgs, []string{stats.From(t, []string{"", "a"}, "mtopic"), "a"}[:1+stats.Pick(t, 2, "ntop")])
			}
			sc.Pubs = append(sc.Pubs, ps)
		}
		if stats.Pct(t, "cancel") < 60 {
			sc.Cancels = []int{stats.Pick(t, ns, "cancelwho")}
		}
		if n := stats.From(t, p.shutdowns, "nshutdowns"); n > 0 {
			sc.Shutdowns = []ShutSpec{{Ctx: stats.From(t, []string{"live", "live", "live", "live", "expired", "expired", "expired-cause"}, "shutctx")}}
			if n > 1 {
				sc.Shutdowns = append(sc.Shutdowns, ShutSpec{Ctx: "live"})
			}
		}
		if sc.Replayer != "nil" && stats.Pct(t, "repfault") < p.repFaults {
			switch stats.Pick(t, 3, "repfaultkind") {
			case 0:
				sc.PutErrAt = stats.Pick(t, 2, "puterrat")
			case 1:
				sc.PutPanicAt = stats.Pick(t, 2, "putpanicat")
			default:
				sc.ReplayPanicAt = stats.Pick(t, 2, "replaypanicat")
			}
			sc.PanicKind = stats.From(t, []string{"", "error", "runtime"}, "panickind")
		}
		if sc.Replayer == "finite" || sc.Replayer == "valid" {
			sc.Prefill = stats.Pick(t, 4, "prefill")
		}
		sc.WarmSubs = stats.Pick(t, ns+1, "warmsubs")
		return sc
	}
}
