//go:build verif

package joesim

import (
	"context"
	"errors"
	"fmt"
	"strings"
	"time"

	sse "github.com/tmaxmax/go-sse"
)

// violation is one broken rule, attributed to the property that owns the rule.
type violation struct {
	Prop string
	Msg  string
}

// facts are derived from one execution; used for classification / non-trivial rules.
type facts struct {
	joePanicked            bool
	failAndCancelBeforeRet bool // some subscriber had an own failure AND a cancel before its Subscribe returned
	retDuringFanout        bool
	shutdownWhileParked    bool
	concurrentShutdowns    bool
	resumeNonTrivial       bool // C04: buffered non-newest ID with a matching publish on each side
	resumeNewest           bool
	resumeEvicted          bool
	resumeInFlight         bool
	multiSubPublish        bool // a publish reached >= 2 subscribers
	failingAndHealthy      bool // C17
	repFaultWithLaterPub   bool
	wrapped                bool
	classes                []string
}

func intersects(a, b []string) bool {
	for _, x := range a {
		for _, y := range b {
			if x == y {
				return true
			}
		}
	}
	return false
}

type putInfo struct {
	at    time.Duration
	pos   int // index of the put record
	ser   string
	ok    bool // stored successfully
	err   error
	panic bool
	id    string
	idSet bool
}

// check applies every rule of C03, C04, C06, C07 and C17 to one execution.
func check(sc Scenario, ex execution) ([]violation, facts) {
	var vs []violation
	var f facts
	bad := func(prop, format string, a ...any) {
		vs = append(vs, violation{prop, fmt.Sprintf(format, a...)})
	}
	log := ex.log

	// ---- global scan -------------------------------------------------------------------
	var puts []putInfo
	putIdx := map[string]int{} // serial -> index in puts
	firstShutCall, firstScenarioShutCall := len(log), len(log)
	firstShutNilRet := len(log)
	repPanicAt := -1
	for i, r := range log {
		switch r.K {
		case "panic":
			f.joePanicked = true
			bad("C06", "Joe's goroutine panicked: %s", r.Ser)
		case "put":
			if repPanicAt >= 0 {
				bad("C17", "replayer used again (Put %s, record %d) after it panicked at record %d", r.Ser, i, repPanicAt)
			}
			if _, dup := putIdx[r.Ser]; dup {
				bad("C03", "message %s was handed to the replayer twice", r.Ser)
			}
			putIdx[r.Ser] = len(puts)
			puts = append(puts, putInfo{pos: i, ser: r.Ser, at: r.At})
		case "putret":
			if k, ok := putIdx[r.Ser]; ok {
				puts[k].err, puts[k].panic, puts[k].id, puts[k].idSet = r.Err, r.Panic, r.ID, r.IDSet
				puts[k].ok = r.Err == nil && !r.Panic
			}
			if r.Panic {
				repPanicAt = i
			}
		case "replaybegin":
			if repPanicAt >= 0 {
				bad("C17", "replayer used again (Replay for s%d, record %d) after it panicked at record %d", r.Sub, i, repPanicAt)
			}
		case "replayend":
			if r.Panic {
				repPanicAt = i
			}
		case "shutcall":
			if i < firstShutCall {
				firstShutCall = i
			}
			if r.Shut >= 0 && i < firstScenarioShutCall {
				firstScenarioShutCall = i
			}
		case "shutret":
			if r.Err == nil && i < firstShutNilRet {
				firstShutNilRet = i
			}
		}
	}
	haveWitness := sc.Replayer != "nil"

	// ---- C07: termination and return values ----------------------------------------------
	if len(ex.stuck) > 0 {
		bad("C07", "calls that never returned although Shutdown was called and every writer returned: %v", ex.stuck)
	}
	if ex.bubble != "" && !f.joePanicked {
		bad("C07", "the bubble did not end cleanly: %s", ex.bubble)
	}
	nilOrCtx := 0
	shutCalls := 0
	for _, r := range log {
		if r.K == "shutret" {
			shutCalls++
			switch {
			case r.Err == nil:
				nilOrCtx++
			case r.CtxErr != nil && errors.Is(r.Err, r.CtxErr):
				nilOrCtx++
			case r.Err == sse.ErrProviderClosed: //nolint:errorlint
			default:
				bad("C07", "Shutdown returned %v, which is neither nil, ErrProviderClosed nor its context's error (%v)", r.Err, r.CtxErr)
			}
		}
	}
	if shutCalls > 0 && nilOrCtx != 1 && !f.joePanicked && len(ex.stuck) == 0 {
		bad("C07", "%d Shutdown calls returned nil or their context's error, want exactly one (every other one must return ErrProviderClosed)", nilOrCtx)
	}
	for i, r := range log {
		if r.K != "pubret" {
			continue
		}
		k, wasPut := putIdx[r.Ser]
		switch {
		case wasPut && puts[k].err != nil && r.Err == puts[k].err: //nolint:errorlint
			// the replayer rejected the message and Publish reports exactly that
		case r.Err == nil && len(ex.msgTopics[r.Ser]) == 0:
			bad("C03", "Publish(%s) without topics returned nil, want ErrNoTopic (it cannot be delivered to anybody)", r.Ser)
		case r.Err == nil:
			if haveWitness && !wasPut && repPanicAt < 0 {
				bad("C07", "Publish(%s) returned nil but the message never reached the replayer/fan-out", r.Ser)
			}
		case r.Err == sse.ErrProviderClosed: //nolint:errorlint
			if wasPut {
				bad("C07", "Publish(%s) returned ErrProviderClosed although the message was accepted (put at record %d)", r.Ser, puts[k].pos)
			}
			if firstShutCall > i {
				bad("C07", "Publish(%s) returned ErrProviderClosed before any Shutdown was called", r.Ser)
			}
		case r.Err == sse.ErrNoTopic: //nolint:errorlint
			if len(ex.msgTopics[r.Ser]) != 0 {
				bad("C03", "Publish(%s) returned ErrNoTopic although it was given topics %q", r.Ser, ex.msgTopics[r.Ser])
			}
			if wasPut {
				bad("C03", "Publish(%s) returned ErrNoTopic but the message reached the replayer (record %d)", r.Ser, puts[k].pos)
			}
		case r.Err == errPut: //nolint:errorlint
			if !wasPut || puts[k].err != errPut { //nolint:errorlint
				bad("C17", "Publish(%s) returned the replayer's error although its Put did not fail", r.Ser)
			}
		default:
			bad("C07", "Publish(%s) returned unexpected error %v", r.Ser, r.Err)
		}
		if wasPut {
			// C17 / C03(7): the result of Publish is determined by the Put result
			switch {
			case puts[k].ok || puts[k].panic:
				if r.Err != nil {
					bad(map[bool]string{true: "C17", false: "C03"}[puts[k].panic], "Publish(%s) returned %v although its Put %s", r.Ser, r.Err, map[bool]string{true: "panicked (must be treated as if no replayer were configured)", false: "succeeded"}[puts[k].panic])
				}
			case puts[k].err != nil:
				if r.Err != puts[k].err { //nolint:errorlint
					bad("C17", "Put(%s) failed with %v but Publish returned %v", r.Ser, puts[k].err, r.Err)
				}
			}
		}
	}
	// calls started after a Shutdown returned nil must be refused and touch nothing
	for i, r := range log {
		if i <= firstShutNilRet {
			continue
		}
		switch r.K {
		case "subcall":
			for _, q := range log[i:] {
				if q.Sub == r.Sub && (q.K == "send" || q.K == "flush" || q.K == "replaybegin") {
					bad("C07", "Subscribe of s%d started after Shutdown had returned nil, yet its writer/replay was used (%s)", r.Sub, q.String())
				}
				if q.Sub == r.Sub && q.K == "subret" && q.Err != sse.ErrProviderClosed { //nolint:errorlint
					bad("C07", "Subscribe of s%d started after Shutdown had returned nil returned %v, want ErrProviderClosed", r.Sub, q.Err)
				}
			}
		case "pubcall":
			for _, q := range log[i:] {
				if q.K == "pubret" && q.Ser == r.Ser && q.Err == sse.ErrNoTopic && len(ex.msgTopics[r.Ser]) == 0 { //nolint:errorlint
					continue // a publish without topics is refused as such, closed or not ("parameter validation should happen first")
				}
				if q.K == "pubret" && q.Ser == r.Ser && q.Err != sse.ErrProviderClosed { //nolint:errorlint
					bad("C07", "Publish(%s) started after Shutdown had returned nil returned %v, want ErrProviderClosed", r.Ser, q.Err)
				}
			}
		}
	}

	// ---- per subscriber -------------------------------------------------------------------
	type subView struct {
		call, regBegin, regEnd, ret int
		regErr                      error
		regPanic                    bool
		ownErrAt                    int
		ownErr                      error
		cancelAt                    int
		sends                       []Rec
		sendPos                     []int
		presented                   string
		presentedSet                bool
	}
	healthyMatchedAfterFailure := false
	for s := range sc.Subs {
		sv := subView{call: -1, regBegin: -1, regEnd: -1, ret: -1, ownErrAt: -1, cancelAt: -1}
		pendingFlush := false
		for i, r := range log {
			if r.K == "hook" && r.Actor == "loop" && r.Point == "loop:idle" && pendingFlush {
				bad("C03", "Joe went idle (record %d) while s%d had a Send that was not followed by a Flush", i, s)
				pendingFlush = false
			}
			if r.Sub != s {
				continue
			}
			switch r.K {
			case "subcall":
				sv.call = i
			case "replaybegin":
				sv.regBegin = i
				sv.presented, sv.presentedSet = r.ID, r.IDSet
			case "replayend":
				sv.regEnd = i
				sv.regErr, sv.regPanic = r.Err, r.Panic
				if r.Err != nil && sv.ownErrAt < 0 {
					sv.ownErrAt, sv.ownErr = i, r.Err
				}
			case "cancelreq":
				if sv.cancelAt < 0 {
					sv.cancelAt = i
				}
			case "send", "flush":
				if sv.ret >= 0 {
					bad("C06", "s%d's writer was called (%s, record %d) after its Subscribe had returned (record %d)", s, r.String(), i, sv.ret)
					if r.K == "send" {
						bad("C03", "%s was handed to s%d (record %d) although s%d is no longer registered: its Subscribe had returned at record %d", r.Ser, s, i, s, sv.ret)
					}
				}
				if sv.ownErrAt >= 0 && sv.ownErr == errWriter { //nolint:errorlint
					bad("C06", "s%d's writer was called again (%s) after it had failed", s, r.String())
					bad("C17", "s%d's writer was called again (%s) after it had failed: a subscriber whose Send or Flush fails is removed", s, r.String())
				}
				if r.Err != nil && sv.ownErrAt < 0 {
					sv.ownErrAt, sv.ownErr = i, r.Err
				}
				if r.K == "send" {
					sv.sends = append(sv.sends, r)
					sv.sendPos = append(sv.sendPos, i)
					pendingFlush = r.Err == nil
				} else {
					pendingFlush = false
				}
			case "subret":
				sv.ret = i
			}
		}
		if sv.call < 0 {
			continue // never started
		}
		topics := sc.Subs[s].Topics

		// -- C06: return value
		if sv.ret >= 0 {
			got := log[sv.ret].Err
			raced := (sv.cancelAt >= 0 && sv.cancelAt < sv.ret) || firstShutCall < sv.ret
			switch {
			case sv.ownErr != nil && !raced:
				if got != sv.ownErr { //nolint:errorlint
					bad("C06", "s%d's own %v (record %d) was not returned by Subscribe: got %v", s, sv.ownErr, sv.ownErrAt, got)
					bad("C17", "s%d's own %v (record %d) was not returned by Subscribe: got %v", s, sv.ownErr, sv.ownErrAt, got) // C17 states it too: the failing subscriber "gets the error from Subscribe"
				}
			case sv.ownErr != nil:
				if got != nil && got != sv.ownErr { //nolint:errorlint
					bad("C06", "s%d: Subscribe returned %v, want its own error %v or nil (failure raced cancellation/shutdown)", s, got, sv.ownErr)
				}
				if sv.cancelAt >= 0 && sv.cancelAt < sv.ret {
					f.failAndCancelBeforeRet = true
				}
			default:
				untouched := sv.regBegin < 0 && len(sv.sends) == 0
				if got != nil && !(got == sse.ErrProviderClosed && untouched && firstShutCall < sv.ret) { //nolint:errorlint
					bad("C06", "s%d had no Send/Flush/replay error but Subscribe returned %v", s, got)
				}
			}
		}

		// -- per-send safety: duplicates, topics, order, IDs
		seen := map[string]bool{}
		lastPut := -1
		for k, r := range sv.sends {
			if r.Err == nil || true {
				if seen[r.Ser] {
					bad("C03", "s%d received %s twice", s, r.Ser)
				}
				seen[r.Ser] = true
			}
			tp, known := ex.msgTopics[r.Ser]
			if !known {
				bad("C03", "s%d received unknown message %q", s, r.Ser)
				continue
			}
			if !intersects(tp, topics) {
				bad("C03", "s%d (topics %q) received %s published to %q", s, topics, r.Ser, tp)
			}
			if pi, ok := putIdx[r.Ser]; ok {
				if puts[pi].pos < lastPut {
					bad("C03", "s%d received %s out of the order in which Joe serialised the publishes", s, r.Ser)
				}
				lastPut = puts[pi].pos
				if puts[pi].ok && (r.IDSet != puts[pi].idSet || r.ID != puts[pi].id) {
					bad("C04", "s%d received %s with ID %q (set=%v), the replayer's Put returned %q (set=%v)", s, r.Ser, r.ID, r.IDSet, puts[pi].id, puts[pi].idSet)
				}
				if !r.Replay && sv.regBegin >= 0 && puts[pi].pos < sv.regBegin {
					bad("C03", "s%d received %s live although it was published before s%d registered", s, r.Ser, s)
				}
				if r.Replay && puts[pi].pos > sv.regBegin {
					bad("C04", "s%d received %s by replay although it was put after the replay began", s, r.Ser)
				}
			} else if haveWitness && repPanicAt < 0 {
				bad("C03", "s%d received %s which never passed the replayer", s, r.Ser)
			}
			_ = k
		}
		// program order per publisher (also without a witness)
		lastByPub := map[int]string{}
		for _, r := range sv.sends {
			pub := ex.msgPub[r.Ser]
			if prev, ok := lastByPub[pub]; ok && serialLess(r.Ser, prev) {
				bad("C03", "s%d received %s after %s, against their publisher's program order", s, r.Ser, prev)
			}
			lastByPub[pub] = r.Ser
		}

		registered := sv.regEnd >= 0 && (sv.regErr == nil || sv.regPanic)
		// A registration witness that does not depend on the replayer being called: the first
		// time Joe's loop went idle after this Subscribe had handed its subscription over. At
		// that point the loop iteration that registered the subscriber is over (it may be later
		// than the actual registration, never earlier).
		witness := -1
		if sv.regErr == nil {
			handed := -1
			for i, r := range log {
				if r.K != "hook" {
					continue
				}
				if handed < 0 && r.Actor == fmt.Sprintf("sub%d", s) && r.Point == "sub:registered" {
					handed = i
				} else if handed >= 0 && r.Actor == "loop" && r.Point == "loop:idle" {
					witness = i
					break
				}
			}
		}
		regPoint := witness
		if registered {
			regPoint = sv.regEnd
		}
		// -- completeness that needs no Put record (no replayer, replayer gone after a panic, or
		// a Subscribe for which the replayer was never consulted): a Publish that STARTED after s
		// was registered and RETURNED nil before s's obligations ended must have reached s
		if regPoint >= 0 {
			endAt0 := firstShutCall
			if sv.ownErrAt >= 0 && sv.ownErrAt < endAt0 {
				endAt0 = sv.ownErrAt
			}
			if sv.cancelAt >= 0 && sv.cancelAt < endAt0 {
				endAt0 = sv.cancelAt
			}
			calls := map[string]int{}
			for i, r := range log {
				if r.K == "pubcall" {
					calls[r.Ser] = i
				}
				if r.K == "pubret" && r.Err == nil && i < endAt0 && calls[r.Ser] > regPoint {
					if intersects(ex.msgTopics[r.Ser], topics) && !seen[r.Ser] {
						prop := "C03"
						if repPanicAt >= 0 && repPanicAt < i {
							prop = "C17"
						}
						bad(prop, "s%d (registered by record %d) never received %s, whose Publish started (record %d) after that and returned nil (record %d) before s%d's cancellation/failure/shutdown", s, regPoint, r.Ser, calls[r.Ser], i, s)
					}
				}
			}
		}
		// -- C04 without a Replay record: the replayer was never asked although one is configured
		// and alive. Whatever shortcut was taken, the subscriber must still see exactly the
		// matching events after the presented ID, once each, in put order.
		if (sc.Replayer == "finite" || sc.Replayer == "valid") && sv.regBegin < 0 && witness >= 0 && (repPanicAt < 0 || repPanicAt > witness) && sc.TTLms == 0 {
			endAt1 := firstShutCall
			if sv.ownErrAt >= 0 && sv.ownErrAt < endAt1 {
				endAt1 = sv.ownErrAt
			}
			if sv.cancelAt >= 0 && sv.cancelAt < endAt1 {
				endAt1 = sv.cancelAt
			}
			presented, presentedSet := log[sv.call].ID, log[sv.call].IDSet
			q := -1 // put position of the presented ID
			var okPuts []putInfo
			for _, p := range puts {
				if p.ok {
					okPuts = append(okPuts, p)
					if presentedSet && p.idSet && p.id == presented && p.pos < sv.call {
						q = p.pos
					}
				}
			}
			// is the presented ID certainly still buffered when s registers (finite: among the last Cap puts made before the witness)?
			buffered := q >= 0
			if buffered && sc.Replayer == "finite" {
				later := 0
				for _, p := range okPuts {
					if p.pos > q && p.pos < witness {
						later++
					}
				}
				buffered = later < sc.Cap
			}
			for _, p := range okPuts {
				if !intersects(ex.msgTopics[p.ser], topics) || p.pos >= endAt1 {
					continue
				}
				required := p.pos > witness || (buffered && p.pos > q)
				if required && !seen[p.ser] {
					bad("C04", "s%d presented ID %q (put at record %d) and Joe never consulted the replayer for it; it never received %s (put at record %d), a later matching event - a gap at the replay/live boundary", s, presented, q, p.ser, p.pos)
				}
			}
			for _, r := range sv.sends {
				if pi, ok := putIdx[r.Ser]; ok && q >= 0 && puts[pi].pos <= q {
					bad("C04", "s%d presented ID %q and received %s, which is not later than it", s, presented, r.Ser)
				}
			}
		}
		if !haveWitness || !registered {
			continue
		}
		// the subscriber's obligation window ends at the first of: own failure, cancel request, first Shutdown call
		endAt := firstShutCall
		if sv.ownErrAt >= 0 && sv.ownErrAt < endAt {
			endAt = sv.ownErrAt
		}
		if sv.cancelAt >= 0 && sv.cancelAt < endAt {
			endAt = sv.cancelAt
		}
		healthy := sv.ownErrAt < 0
		// -- C03(4): completeness of live delivery
		liveMatching, liveBeforeEnd := 0, 0
		for _, p := range puts {
			if p.pos < sv.regEnd || !intersects(ex.msgTopics[p.ser], topics) {
				continue
			}
			liveMatching++
			if p.pos < endAt {
				liveBeforeEnd++
				if !seen[p.ser] {
					prop := "C03"
					if healthy && anotherSubscriberFailedBefore(log, s, p.pos) {
						prop = "C17"
					}
					if !p.ok && p.err != nil {
						prop = "C17" // a failed Put must not stop live delivery
					}
					if repPanicAt >= 0 && p.pos >= repPanicAt {
						prop = "C17"
					}
					bad(prop, "s%d (registered at record %d, obliged until record %d) never received %s (put at record %d, topics %q)", s, sv.regEnd, endAt, p.ser, p.pos, ex.msgTopics[p.ser])
					if sv.presentedSet && prop != "C04" {
						// for a subscriber that resumed with a Last-Event-ID a missing live event is a gap in
						// "every later event exactly once" (C04), whatever made Joe skip it
						bad("C04", "resuming s%d (presented %q, registered at record %d) never received %s (put at record %d): a gap after the replay/live boundary", s, sv.presented, sv.regEnd, p.ser, p.pos)
					}
				} else if healthy && anotherSubscriberFailedBefore(log, s, p.pos) {
					healthyMatchedAfterFailure = true
				}
			}
		}
		// -- C04: the replayed part
		if sc.Replayer == "finite" || sc.Replayer == "valid" {
			var buf []putInfo
			replayAt := log[sv.regBegin].At
			expired := 0
			for _, p := range puts {
				if p.ok && p.pos < sv.regBegin {
					if sc.Replayer == "valid" && sc.TTLms > 0 && p.at+time.Duration(sc.TTLms)*time.Millisecond <= replayAt {
						expired++ // no longer valid at the time of the replay
						continue
					}
					buf = append(buf, p)
				}
			}
			if expired > 0 {
				f.classes = append(f.classes, "resume-with-expired-events")
			}
			total := len(buf)
			if sc.Replayer == "finite" && len(buf) > sc.Cap {
				buf = buf[len(buf)-sc.Cap:]
				f.wrapped = true
			}
			pos := -1
			if sv.presentedSet {
				for i, p := range buf {
					if p.idSet && p.id == sv.presented {
						pos = i
					}
				}
			}
			var replayed []string
			for _, r := range sv.sends {
				if r.Replay {
					replayed = append(replayed, r.Ser)
				}
			}
			evictedAuto := false
			if pos < 0 && sv.presentedSet && (sc.Auto || (sc.Replayer == "valid" && sc.TTLms > 0)) {
				// an ID that was issued but is no longer buffered: the statement leaves it open (DESIGN 6.6)
				for _, p := range puts {
					if p.ok && p.pos < sv.regBegin && p.id == sv.presented {
						evictedAuto = true
					}
				}
			}
			if !evictedAuto && !sv.regPanic {
				var want []string
				if pos >= 0 {
					for _, p := range buf[pos+1:] {
						if intersects(ex.msgTopics[p.ser], topics) {
							want = append(want, p.ser)
						}
					}
				}
				complete := sv.regErr == nil
				if complete && strings.Join(replayed, ",") != strings.Join(want, ",") {
					bad("C04", "s%d presented ID %q (set=%v; position %d of %d buffered, %d put so far) and was replayed %v, want %v", s, sv.presented, sv.presentedSet, pos, len(buf), total, replayed, want)
				}
				if !complete && !isPrefix(replayed, want) {
					bad("C04", "s%d's failed replay sent %v, not a prefix of %v", s, replayed, want)
				}
				if pos >= 0 && pos < len(buf)-1 && len(want) > 0 && liveBeforeEnd > 0 && complete {
					f.resumeNonTrivial = true
				}
				if pos >= 0 && pos == len(buf)-1 {
					f.resumeNewest = true
				}
			}
			if evictedAuto {
				f.resumeEvicted = true
			}
			// a publish in flight while the resuming Subscribe registered
			for _, r := range log[sv.call:sv.regEnd] {
				if r.K == "pubcall" || (r.K == "hook" && strings.HasPrefix(r.Actor, "pub")) {
					f.resumeInFlight = true
				}
			}
		}
	}
	if healthyMatchedAfterFailure {
		f.failingAndHealthy = true
	}

	// ---- facts for non-trivial rules ---------------------------------------------------------
	// a publish that reached >= 2 subscribers
	reach := map[string]int{}
	for _, r := range log {
		if r.K == "send" && !r.Replay {
			reach[r.Ser]++
		}
	}
	for _, n := range reach {
		if n >= 2 {
			f.multiSubPublish = true
		}
	}
	// shutdown issued while another call was parked inside Joe
	shutAt := -1
	for i, r := range log {
		if r.K == "shutcall" && r.Shut >= 0 {
			if shutAt >= 0 {
				f.concurrentShutdowns = true
			}
			shutAt = i
			open := map[string]bool{}
			for _, q := range log[:i] {
				switch q.K {
				case "subcall":
					open[fmt.Sprintf("s%d", q.Sub)] = true
				case "subret":
					delete(open, fmt.Sprintf("s%d", q.Sub))
				case "pubcall":
					open["p"+q.Ser] = true
				case "pubret":
					delete(open, "p"+q.Ser)
				}
			}
			if len(open) > 0 {
				f.shutdownWhileParked = true
			}
		}
	}
	if repPanicAt >= 0 || sc.PutErrAt >= 0 {
		faultAt := repPanicAt
		for _, p := range puts {
			if p.err != nil {
				faultAt = p.pos
			}
		}
		for _, p := range puts {
			if faultAt >= 0 && p.pos > faultAt {
				f.repFaultWithLaterPub = true
			}
		}
	}
	// Subscribe returned while Joe was inside a fan-out (between a put and the next idle)
	inFanout := false
	for _, r := range log {
		switch {
		case r.K == "put":
			inFanout = true
		case r.K == "hook" && r.Actor == "loop" && r.Point == "loop:idle":
			inFanout = false
		case r.K == "subret" && inFanout:
			f.retDuringFanout = true
		}
	}
	return vs, f
}

var contextCanceled = context.Canceled

func anotherSubscriberFailedBefore(log []Rec, s int, pos int) bool {
	for i, r := range log {
		if i >= pos {
			break
		}
		if (r.K == "send" || r.K == "flush") && r.Sub != s && r.Err != nil {
			return true
		}
	}
	return false
}

func isPrefix(a, b []string) bool {
	if len(a) > len(b) {
		return false
	}
	for i := range a {
		if a[i] != b[i] {
			return false
		}
	}
	return true
}

// serialLess compares harness serials "m<n>" numerically.
func serialLess(a, b string) bool {
	var x, y int
	fmt.Sscanf(a, "m%d", &x)
	fmt.Sscanf(b, "m%d", &y)
	return x < y
}
