//go:build verif

package joesim

import (
	"context"
	"fmt"
	"strings"
	"testing"
	"testing/synctest"

	sse "github.com/tmaxmax/go-sse"
	"pgregory.net/rapid"

	"verif/harness/stats"
)

// C03, sequential pass with a REUSED topics buffer (seed C03-r7a): one publisher owns one topics
// slice of fixed length and rewrites its contents before every Publish; subscribers come and go in
// between. The unchanged code still reads the slice after Publish has returned (fan-out happens
// after replayerErr is closed), so the buffer is rewritten only after synctest.Wait() has shown Joe
// idle again - that is the fence which makes the rewrite race-free. Everything is sequential: the
// oracle is the plain "matching and registered at the time of the publish" rule.

type ReuseOp struct {
	K      string   `json:"k"` // pub | sub | unsub
	I      int      `json:"i,omitempty"`
	Topics []string `json:"topics,omitempty"`
}

type ReuseCase struct {
	L        int       `json:"buffer_len"`
	Replayer int       `json:"replayer"` // 0 nil, 1 Finite(auto IDs, 4)
	Ops      []ReuseOp `json:"ops"`
}

var reusePool = []string{"a", "b", "c", "d"}

func genReuse(rt *rapid.T) ReuseCase {
	c := ReuseCase{L: 1 + stats.Pick(rt, 3, "L"), Replayer: stats.Pick(rt, 2, "rep")}
	n := 2 + stats.Pick(rt, 14, "n")
	topics := func(k int) []string {
		ts := make([]string, k)
		for i := range ts {
			ts[i] = stats.From(rt, reusePool, "topic")
		}
		return ts
	}
	for i := 0; i < n; i++ {
		switch p := stats.Pct(rt, "kind"); {
		case p < 60:
			c.Ops = append(c.Ops, ReuseOp{K: "pub", Topics: topics(c.L)})
		case p < 85:
			c.Ops = append(c.Ops, ReuseOp{K: "sub", I: stats.Pick(rt, 4, "slot"), Topics: topics(1 + stats.Pick(rt, 2, "nt"))})
		default:
			c.Ops = append(c.Ops, ReuseOp{K: "unsub", I: stats.Pick(rt, 4, "slot")})
		}
	}
	return c
}

type reuseWriter struct{ got []string }

func (w *reuseWriter) Send(m *sse.Message) error { w.got = append(w.got, serialOf(m)); return nil }
func (w *reuseWriter) Flush() error               { return nil }

type reuseSub struct {
	w      *reuseWriter
	topics []string
	cancel context.CancelFunc
	done   chan error
	want   []string
}

func checkReuse(t *testing.T, c ReuseCase) *stats.Verdict {
	v := &stats.Verdict{Size: len(c.Ops)}
	var fail string
	rewrites, sameMembership := 0, 0
	sse.VerifHook = nil // sequential pass: nothing parks
	synctest.Test(t, func(t *testing.T) {
		j := &sse.Joe{}
		if c.Replayer == 1 {
			r, err := sse.NewFiniteReplayer(4, true)
			if err != nil {
				panic(err)
			}
			j.Replayer = r
		}
		buf := make([]string, c.L)
		var slots [4]*reuseSub
		membershipChanged, published := true, false
		var last []string
		for k, op := range c.Ops {
			switch op.K {
			case "pub":
				if published && !membershipChanged && strings.Join(last, ",") != strings.Join(op.Topics, ",") {
					sameMembership++
				}
				if published {
					rewrites++
				}
				copy(buf, op.Topics) // the rewrite: Joe is idle (Wait below), nothing reads buf now
				m := &sse.Message{}
				m.AppendData(fmt.Sprintf("k%d", k))
				if err := j.Publish(m, buf); err != nil && fail == "" {
					fail = fmt.Sprintf("op %d: Publish(%q) = %v", k, op.Topics, err)
				}
				synctest.Wait()
				for i, s := range slots {
					if s == nil {
						continue
					}
					if intersects(s.topics, op.Topics) {
						s.want = append(s.want, fmt.Sprintf("k%d", k))
					}
					if g, w := strings.Join(s.w.got, " "), strings.Join(s.want, " "); g != w && fail == "" {
						fail = fmt.Sprintf("after op %d (publish to %q through the publisher's reused topics buffer): subscriber in slot %d (topics %q) has received [%s], want [%s]", k, op.Topics, i, s.topics, g, w)
					}
				}
				published, membershipChanged, last = true, false, op.Topics
			case "sub":
				if slots[op.I] != nil {
					continue
				}
				ctx, cancel := context.WithCancel(context.Background())
				s := &reuseSub{w: &reuseWriter{}, topics: op.Topics, cancel: cancel, done: make(chan error, 1)}
				go func() { s.done <- j.Subscribe(ctx, sse.Subscription{Client: s.w, Topics: s.topics}) }()
				synctest.Wait()
				slots[op.I] = s
				membershipChanged = true
			case "unsub":
				s := slots[op.I]
				if s == nil {
					continue
				}
				s.cancel()
				synctest.Wait()
				<-s.done
				slots[op.I] = nil
				membershipChanged = true
			}
		}
		_ = j.Shutdown(context.Background())
		for _, s := range slots {
			if s != nil {
				<-s.done
				s.cancel()
			}
		}
		synctest.Wait()
	})
	if fail != "" {
		return v.Failf("reused-topics-buffer", "%s", fail)
	}
	v.Count("topics_buffer_rewrites", int64(rewrites))
	v.Count("rewrites_without_membership_change", int64(sameMembership))
	if sameMembership > 0 {
		v.Class("reuse/rewrite-without-membership-change")
	}
	v.Class(fmt.Sprintf("reuse/L=%d/replayer=%d", c.L, c.Replayer))
	v.NonTrivial = sameMembership > 0
	return v
}

const ruleReuse = "SEQUENTIAL PASS WITH A REUSED TOPICS BUFFER: rapid-generated sequences (2..15 ops) of publish / subscribe / unsubscribe on a Joe (no replayer | FiniteReplayer), inside a testing/synctest bubble; the single publisher passes the same topics slice (length 1..3) to every Publish and rewrites its contents before each call, only after synctest.Wait() has shown Joe idle (the unchanged code reads the slice after Publish returned). Oracle after every publish: each registered subscriber has received exactly the messages whose topics at the time of the call intersect its own, in order. Non-trivial: the buffer was rewritten to different contents between two publishes with no subscribe/unsubscribe in between. Distinct: FNV-64 of the JSON of the case."

func TestC03Reuse(t *testing.T) {
	stats.Run(t, stats.Prop[ReuseCase]{ID: "C03", Rule: ruleReuse, Gen: genReuse, Check: checkReuse})
}
