//go:build verif

package joesim

import (
	"fmt"
	"runtime"
	"testing"

	"pgregory.net/rapid"

	"verif/harness/stats"
)

const ruleCommon = "rapid-generated scenarios (replayer nil|recording-noop|Finite|Valid, manual/automatic IDs; 0..4 subscribers with topic sets, writer faults at the k-th Send/Flush that may also cancel the subscriber's own context, failing replays, resuming IDs chosen relative to the puts made so far; 1..3 publisher goroutines with 1..4 messages each; cancel actions; 0..3 Shutdown calls with live/expired/later-cancelled contexts; replayer Put error / Put panic / Replay panic) x schedule (0..90 picks). Every actor runs in its own goroutine inside a testing/synctest bubble; verif-tag hooks in Joe and the recording writer/replayer park goroutines, and the harness's scheduler releases exactly one parked goroutine or starts one action per step, chosen by the schedule; each scenario+schedule is executed R times (the runtime's choice among ready select arms and map order are sampled, not controlled). One totally ordered log is checked by a pure history checker; quiescence (synctest.Wait) decides termination. Distinct: FNV-64 of the JSON of the case."

var nonTrivialRules = map[string]string{
	"C03": " Non-trivial (C03): a live publish reached >= 2 subscribers and at some step >= 2 goroutines were parked inside Joe operations (a real choice point).",
	"C04": " Non-trivial (C04): a resuming subscriber presented a buffered, non-newest ID, was replayed something and had a matching live publish after its registration.",
	"C06": " Non-trivial (C06): for some subscriber a failing writer/replay call AND a cancellation both happened before its Subscribe returned, or a Subscribe returned while Joe was inside a fan-out.",
	"C07": " Non-trivial (C07): a Shutdown was issued by the scenario while at least one other call was still pending inside Joe.",
	"C17": " Non-trivial (C17): a healthy subscriber matched a message published after another subscriber had failed, or a replayer Put/Replay fault was followed by a later publish.",
}

type JoeCase struct {
	Sc Scenario `json:"scenario"`
}

func reps() int {
	if stats.Tier() == "thorough" {
		return stats.EnvInt("VERIF_REPS", 6)
	}
	return stats.EnvInt("VERIF_REPS", 3)
}

func checkProp(prop string) func(t *testing.T, c JoeCase) *stats.Verdict {
	return checkPropMode(prop, false)
}

func checkPropMode(prop string, freeRun bool) func(t *testing.T, c JoeCase) *stats.Verdict {
	return func(t *testing.T, c JoeCase) *stats.Verdict {
		v := &stats.Verdict{Size: len(c.Sc.Picks) + 10*len(c.Sc.Subs)}
		for r := 0; r < reps(); r++ {
			ex := runScenarioMode(t, c.Sc, freeRun)
			v.Count("executions", 1)
			if freeRun {
				v.Class(fmt.Sprintf("free-running/GOMAXPROCS=%d", runtime.GOMAXPROCS(0)))
			}
			vs, f := check(c.Sc, ex)
			if ex.truncated {
				v.Count("step_limit_hit", 1)
			}
			if f.joePanicked && prop != "C06" {
				// after a crash of Joe nothing this property states is observable; C06 owns it
				v.Count("discarded_after_joe_panic", 1)
				continue
			}
			other := 0
			for _, x := range vs {
				if x.Prop == prop {
					return v.Failf("", "%s\nreplayer=%s cap=%d auto=%v steps=%d\ntrace: %v\nlog:\n%s", x.Msg, c.Sc.Replayer, c.Sc.Cap, c.Sc.Auto, ex.steps, ex.trace, fmtLog(ex.log))
				}
				other++
			}
			if other > 0 {
				v.Count("violations_owned_by_other_properties", int64(other))
			}
			classify(prop, v, c.Sc, ex, f)
		}
		return v
	}
}

func classify(prop string, v *stats.Verdict, sc Scenario, ex execution, f facts) {
	v.Class("replayer:" + sc.Replayer)
	if ex.maxParked >= 2 {
		v.Class("choice-point")
	}
	if f.multiSubPublish {
		v.Class("publish-reached>=2-subscribers")
	}
	if f.failAndCancelBeforeRet {
		v.Class("failure-and-cancel-before-return")
	}
	if f.retDuringFanout {
		v.Class("subscribe-returned-during-fanout")
	}
	if f.shutdownWhileParked {
		v.Class("shutdown-while-calls-pending")
	}
	if f.concurrentShutdowns {
		v.Class("several-shutdowns")
	}
	if f.resumeNonTrivial {
		v.Class("resume-middle-of-buffer")
	}
	if f.resumeNewest {
		v.Class("resume-newest")
	}
	if f.resumeEvicted {
		v.Class("resume-evicted-auto(lenient)")
	}
	if f.resumeInFlight {
		v.Class("resume-with-publish-in-flight")
	}
	if f.wrapped {
		v.Class("replay-buffer-wrapped")
	}
	if f.failingAndHealthy {
		v.Class("healthy-after-foreign-failure")
	}
	if f.repFaultWithLaterPub {
		v.Class("replayer-fault-then-publish")
	}
	for _, c := range f.classes {
		v.Class(c)
	}
	for _, r := range ex.log {
		if r.K == "hook" && r.Point == "sub:ctxdone" {
			v.Class("subscribe-passed-ctxdone")
			break
		}
	}
	switch prop {
	case "C03":
		v.NonTrivial = v.NonTrivial || (f.multiSubPublish && ex.maxParked >= 2)
	case "C04":
		v.NonTrivial = v.NonTrivial || f.resumeNonTrivial
	case "C06":
		v.NonTrivial = v.NonTrivial || f.failAndCancelBeforeRet || f.retDuringFanout
	case "C07":
		v.NonTrivial = v.NonTrivial || f.shutdownWhileParked
	case "C17":
		v.NonTrivial = v.NonTrivial || f.failingAndHealthy || f.repFaultWithLaterPub
	}
}

func runProp(t *testing.T, prop string) {
	gen := genScenario(profiles[prop])
	stats.Run(t, stats.Prop[JoeCase]{
		ID:    prop,
		Rule:  ruleCommon + nonTrivialRules[prop],
		Gen:   func(rt *rapid.T) JoeCase { return JoeCase{Sc: gen(rt)} },
		Check: checkProp(prop),
	})
}

const ruleBounded = " DEVIATION-BOUNDED ENUMERATION PASS: rapid generates SMALL scenarios (1..2 subscribers, 1..2 publishers with 1..2 messages, at most one cancel, 0..2 shutdowns, faults as above); for each scenario the controlled scheduler executes the default schedule (always option 0) and then EVERY schedule that deviates from it at no more than K steps (K=2 quick, 3 thorough; every step x every alternative option, discovered by depth-first re-execution). Counters report executions, scenarios enumerated completely and scenarios cut off at the execution cap; a scenario counts as non-trivial when its enumeration completed and visited at least 50 distinct schedules."

func maxDev() int {
	if stats.Tier() == "thorough" {
		return stats.EnvInt("VERIF_MAXDEV", 3)
	}
	return stats.EnvInt("VERIF_MAXDEV", 2)
}

// checkBounded enumerates all schedules of a small scenario with at most K deviations.
func checkBounded(prop string) func(t *testing.T, c JoeCase) *stats.Verdict {
	single := checkPropMode(prop, false)
	return func(t *testing.T, c JoeCase) *stats.Verdict {
		if len(c.Sc.Dev) > 0 || !c.Sc.DevMode {
			return single(t, c) // a replayed failure: exactly that schedule
		}
		v := &stats.Verdict{Size: len(c.Sc.Subs) + len(c.Sc.Pubs)}
		K := maxDev()
		budget := stats.EnvInt("VERIF_ENUM_CAP", 4000)
		executed, cut := 0, false
		var fail *stats.Verdict
		var rec func(devs []Dev, last, depth int)
		rec = func(devs []Dev, last, depth int) {
			if fail != nil || cut {
				return
			}
			if executed >= budget {
				cut = true
				return
			}
			sc := c.Sc
			sc.Dev = append([]Dev(nil), devs...)
			ex := runScenario(t, sc)
			executed++
			vs, f := check(sc, ex)
			if !(f.joePanicked && prop != "C06") {
				for _, x := range vs {
					if x.Prop == prop {
						fail = &stats.Verdict{Repro: JoeCase{Sc: sc}}
						fail.Failf("", "%s\n(found by the deviation-bounded enumeration: deviations %+v from the default schedule)\nreplayer=%s cap=%d auto=%v steps=%d\ntrace: %v\nlog:\n%s", x.Msg, devs, sc.Replayer, sc.Cap, sc.Auto, ex.steps, ex.trace, fmtLog(ex.log))
						return
					}
				}
				classify(prop, v, sc, ex, f)
			}
			if depth == K {
				return
			}
			for s := last + 1; s < len(ex.optCounts); s++ {
				for alt := 1; alt < ex.optCounts[s]; alt++ {
					rec(append(devs, Dev{s, alt}), s, depth+1)
				}
			}
		}
		rec(nil, -1, 0)
		v.Count("enumerated_executions", int64(executed))
		if fail != nil {
			fail.Counters = v.Counters
			return fail
		}
		if cut {
			v.Count("scenarios_cut_at_execution_cap", 1)
			v.NonTrivial = false
		} else {
			v.Count("scenarios_enumerated_completely", 1)
			v.Class(fmt.Sprintf("complete-enumeration/K=%d", K))
			v.NonTrivial = executed >= 50
		}
		return v
	}
}

func runPropBounded(t *testing.T, prop string) {
	gen := genSmallScenario(profiles[prop])
	stats.Run(t, stats.Prop[JoeCase]{
		ID:    prop,
		Rule:  ruleCommon + ruleBounded + nonTrivialRules[prop],
		Gen:   func(rt *rapid.T) JoeCase { return JoeCase{Sc: gen(rt)} },
		Check: checkBounded(prop),
	})
}

func TestC03Bounded(t *testing.T) { runPropBounded(t, "C03") }
func TestC04Bounded(t *testing.T) { runPropBounded(t, "C04") }
func TestC06Bounded(t *testing.T) { runPropBounded(t, "C06") }
func TestC07Bounded(t *testing.T) { runPropBounded(t, "C07") }
func TestC17Bounded(t *testing.T) { runPropBounded(t, "C17") }

const ruleFree = " FREE-RUNNING PASS: the same scenarios and the same checker on the real scheduler (inside a bubble for exact quiescence, built with -race, at the GOMAXPROCS values given by -test.cpu): nothing parks, actors are started in schedule order and the hooks only yield/spin as told by the schedule."

func runPropFree(t *testing.T, prop string) {
	gen := genScenario(profiles[prop])
	stats.Run(t, stats.Prop[JoeCase]{
		ID:    prop,
		Rule:  ruleCommon + ruleFree + nonTrivialRules[prop],
		Gen:   func(rt *rapid.T) JoeCase { return JoeCase{Sc: gen(rt)} },
		Check: checkPropMode(prop, true),
	})
}

func TestC03Free(t *testing.T) { runPropFree(t, "C03") }
func TestC04Free(t *testing.T) { runPropFree(t, "C04") }
func TestC06Free(t *testing.T) { runPropFree(t, "C06") }
func TestC07Free(t *testing.T) { runPropFree(t, "C07") }
func TestC17Free(t *testing.T) { runPropFree(t, "C17") }

func TestC03(t *testing.T) { runProp(t, "C03") }
func TestC04(t *testing.T) { runProp(t, "C04") }
func TestC06(t *testing.T) { runProp(t, "C06") }
func TestC07(t *testing.T) { runProp(t, "C07") }
func TestC17(t *testing.T) { runProp(t, "C17") }

var _ = fmt.Sprint

func fuzzProp(f *testing.F, prop string) {
	gen := genScenario(profiles[prop])
	stats.Fuzz(f, stats.Prop[JoeCase]{
		ID:    prop,
		Rule:  ruleCommon + nonTrivialRules[prop],
		Gen:   func(rt *rapid.T) JoeCase { return JoeCase{Sc: gen(rt)} },
		Check: checkProp(prop),
	})
}

func FuzzC03(f *testing.F) { fuzzProp(f, "C03") }
func FuzzC04(f *testing.F) { fuzzProp(f, "C04") }
func FuzzC06(f *testing.F) { fuzzProp(f, "C06") }
func FuzzC07(f *testing.F) { fuzzProp(f, "C07") }
func FuzzC17(f *testing.F) { fuzzProp(f, "C17") }
