module verif/harness

go 1.26.8

require (
	github.com/tmaxmax/go-sse v0.0.0
	pgregory.net/rapid v1.3.0
)

replace github.com/tmaxmax/go-sse => /repo
