// Package stats is the glue between the property bodies and the ./check driver:
// it counts what a run generated (evaluations, distinct non-trivial cases by a stated
// rule, class histogram, samples), writes failing cases as plain JSON replay files and
// re-runs such files without going through rapid.
//
// Environment (all set by ./check):
//
//	VERIF_STATS     file to write the run statistics to (JSON); <file>.hashes gets the
//	                64-bit hashes of the distinct non-trivial cases (little-endian uint64s)
//	VERIF_FAILFILE  file that receives the (last, i.e. shrunk) failing case as JSON
//	VERIF_REPLAY    os.PathListSeparator-separated list of replay files: when set, the
//	                property is evaluated on exactly these cases and nothing is generated
//	VERIF_TIER      quick | thorough
package stats

import (
	"encoding/binary"
	"encoding/json"
	"fmt"
	"hash/fnv"
	"os"
	"path/filepath"
	"runtime/debug"
	"sort"
	"strconv"
	"strings"
	"sync"
	"testing"

	"pgregory.net/rapid"
)

// B is a byte string that survives JSON exactly (Go-quoted, so invalid UTF-8, NUL and
// control characters are kept) and stays readable in evidence samples.
type B string

func (b B) MarshalJSON() ([]byte, error) {
	return json.Marshal(strconv.QuoteToASCII(string(b)))
}

func (b *B) UnmarshalJSON(p []byte) error {
	var q string
	if err := json.Unmarshal(p, &q); err != nil {
		return err
	}
	s, err := strconv.Unquote(q)
	if err != nil {
		return fmt.Errorf("stats.B: %w", err)
	}
	*b = B(s)
	return nil
}

// Verdict is what a property body returns for one case.
type Verdict struct {
	// Fail is empty when the property held on the case.
	Fail string
	// Signature identifies the root cause class of a failure (matched against
	// finding: lines of known-findings.txt). Optional.
	Signature string
	// NonTrivial says whether the case is non-trivial by the property's stated rule.
	NonTrivial bool
	// Classes this case falls into (histogram in the evidence).
	Classes []string
	// Counters are added to the evidence's extra counters (leniencies used, exclusions,
	// inner executions ...).
	Counters map[string]int64
	// Size orders samples (the largest non-trivial case is kept as a sample).
	Size int
	// Repro, when set, is written to the fail file instead of the generated case (same type):
	// used by checks that search inside a case (enumerations) and know the precise failing point.
	Repro any
}

func (v *Verdict) Class(c string) { v.Classes = append(v.Classes, c) }
func (v *Verdict) Count(k string, n int64) {
	if v.Counters == nil {
		v.Counters = map[string]int64{}
	}
	v.Counters[k] += n
}
func (v *Verdict) Failf(sig, format string, a ...any) *Verdict {
	if v.Fail == "" {
		v.Fail = fmt.Sprintf(format, a...)
		v.Signature = sig
	}
	return v
}

type sample struct {
	Size int `json:"size"`
	Case any `json:"case"`
}

type collector struct {
	mu          sync.Mutex
	Property    string
	Rule        string
	Evaluations int64
	NonTrivial  int64
	hashes      map[uint64]struct{}
	Classes     map[string]int64
	Counters    map[string]int64
	first       []sample
	largest     *sample
	Failures    int64
}

var (
	cmu        sync.Mutex
	collectors = map[string]*collector{}
)

func get(prop string) *collector {
	cmu.Lock()
	defer cmu.Unlock()
	c := collectors[prop]
	if c == nil {
		c = &collector{Property: prop, hashes: map[uint64]struct{}{}, Classes: map[string]int64{}, Counters: map[string]int64{}}
		collectors[prop] = c
	}
	return c
}

func hashOf(v any) uint64 {
	b, err := json.Marshal(v)
	if err != nil {
		panic(err)
	}
	h := fnv.New64a()
	h.Write(b)
	return h.Sum64()
}

func (c *collector) record(cs any, v *Verdict) {
	c.mu.Lock()
	defer c.mu.Unlock()
	c.Evaluations++
	seenClass := map[string]bool{}
	for _, k := range v.Classes {
		if !seenClass[k] { // histogram of cases, not of occurrences
			seenClass[k] = true
			c.Classes[k]++
		}
	}
	for k, n := range v.Counters {
		c.Counters[k] += n
	}
	if v.Fail != "" {
		c.Failures++
	}
	if !v.NonTrivial {
		return
	}
	c.NonTrivial++
	h := hashOf(cs)
	if _, dup := c.hashes[h]; dup {
		return
	}
	c.hashes[h] = struct{}{}
	if len(c.first) < 3 {
		c.first = append(c.first, sample{v.Size, cs})
	} else if c.largest == nil || v.Size > c.largest.Size {
		c.largest = &sample{v.Size, cs}
	}
}

// Count adds to a named counter of a property outside of a Verdict.
func Count(prop, key string, n int64) {
	c := get(prop)
	c.mu.Lock()
	c.Counters[key] += n
	c.mu.Unlock()
}

type failFile struct {
	Property  string          `json:"property"`
	Signature string          `json:"signature"`
	Message   string          `json:"message"`
	Case      json.RawMessage `json:"case"`
}

func writeFail(prop string, cs any, v *Verdict) {
	path := os.Getenv("VERIF_FAILFILE")
	if path == "" {
		return
	}
	if v.Repro != nil {
		cs = v.Repro
	}
	raw, err := json.MarshalIndent(cs, " ", " ")
	if err != nil {
		raw = []byte(`"unmarshalable case"`)
	}
	b, _ := json.MarshalIndent(failFile{prop, v.Signature, v.Fail, raw}, "", " ")
	_ = os.MkdirAll(filepath.Dir(path), 0o755)
	_ = os.WriteFile(path, append(b, '\n'), 0o644)
}

// WriteFailure lets code outside Run (e.g. native fuzz targets, enumerations) record a failing case.
func WriteFailure(prop string, cs any, sig, msg string) {
	writeFail(prop, cs, &Verdict{Fail: msg, Signature: sig})
}

// Prop describes one property check: a generator of plain-data cases and a body that
// evaluates the property on one case.
type Prop[C any] struct {
	ID    string
	Rule  string
	Gen   func(*rapid.T) C
	Check func(t *testing.T, c C) *Verdict
}

// guarded evaluates the property body and turns a panic that unwinds through frames of the
// code under test into a failing verdict (with the stack), so that it gets a replay file
// and shrinks like any other failure. Panics that never touched go-sse are harness bugs
// and propagate (the driver then reports the run as inconclusive).
// inCodeUnderTest reports whether a stack passes through go-sse: by package path, or - for
// frames of inlined functions and closures, which are named after their caller - by the source
// file's directory (/repo, or the scratch worktree given through VERIF_REPO_OVERRIDE).
func inCodeUnderTest(stack string) bool {
	if strings.Contains(stack, "github.com/tmaxmax/go-sse") || strings.Contains(stack, "\t/repo/") {
		return true
	}
	if alt := os.Getenv("VERIF_REPO_OVERRIDE"); alt != "" && strings.Contains(stack, "\t"+alt+"/") {
		return true
	}
	return false
}

func guarded[C any](t *testing.T, p Prop[C], c C) (v *Verdict) {
	defer func() {
		if r := recover(); r != nil {
			stack := string(debug.Stack())
			if !inCodeUnderTest(stack) {
				panic(r)
			}
			v = &Verdict{}
			v.Failf("panic", "panic in the code under test: %v\n%s", r, trimStack(stack))
		}
	}()
	return p.Check(t, c)
}

func trimStack(s string) string {
	lines := strings.Split(s, "\n")
	var out []string
	for i := 0; i+1 < len(lines) && len(out) < 24; i++ {
		if strings.Contains(lines[i], "go-sse") || strings.Contains(lines[i], "verif/harness") || strings.Contains(lines[i+1], "/repo/") {
			out = append(out, strings.TrimSpace(lines[i])+" "+strings.TrimSpace(lines[i+1]))
		}
	}
	return strings.Join(out, "\n")
}

// Run evaluates p: on the replay files when VERIF_REPLAY is set, else under rapid.Check.
func Run[C any](t *testing.T, p Prop[C]) {
	col := get(p.ID)
	col.Rule = p.Rule
	if files := ReplayFiles(); files != nil {
		for _, f := range files {
			var ff failFile
			b, err := os.ReadFile(f)
			if err != nil {
				t.Fatalf("replay %s: %v", f, err)
			}
			if err := json.Unmarshal(b, &ff); err != nil {
				t.Fatalf("replay %s: %v", f, err)
			}
			if ff.Property != p.ID {
				continue
			}
			var c C
			if err := json.Unmarshal(ff.Case, &c); err != nil {
				t.Fatalf("replay %s: case: %v", f, err)
			}
			v := guarded(t, p, c)
			Count(p.ID, "replayed_files", 1)
			if v.Fail != "" {
				writeFail(p.ID, c, v)
				t.Fatalf("replay %s: %s", f, v.Fail)
			}
		}
		return
	}
	rapid.Check(t, func(rt *rapid.T) {
		c := p.Gen(rt)
		v := guarded(t, p, c)
		col.record(c, v)
		if v.Fail != "" {
			writeFail(p.ID, c, v)
			rt.Fatalf("%s", v.Fail)
		}
	})
}

// Record is for checks that enumerate or fuzz outside rapid.
func Record(prop, rule string, cs any, v *Verdict) {
	col := get(prop)
	if rule != "" {
		col.Rule = rule
	}
	col.record(cs, v)
	if v.Fail != "" {
		writeFail(prop, cs, v)
	}
}

// ReplayFiles returns the replay files given through VERIF_REPLAY (nil if unset).
func ReplayFiles() []string {
	s := os.Getenv("VERIF_REPLAY")
	if s == "" {
		return nil
	}
	return filepath.SplitList(s)
}

// Tier returns the tier the driver asked for.
func Tier() string {
	if os.Getenv("VERIF_TIER") == "thorough" {
		return "thorough"
	}
	return "quick"
}

// EnvInt reads an integer parameter from the environment.
func EnvInt(name string, def int) int {
	if s := os.Getenv(name); s != "" {
		if n, err := strconv.Atoi(s); err == nil {
			return n
		}
	}
	return def
}

type outFile struct {
	Property    string           `json:"property"`
	Rule        string           `json:"rule"`
	Evaluations int64            `json:"evaluations"`
	NonTrivial  int64            `json:"nontrivial_total"`
	Distinct    int64            `json:"distinct_nontrivial"`
	Classes     map[string]int64 `json:"classes"`
	Counters    map[string]int64 `json:"counters"`
	Samples     []sample         `json:"samples"`
	Failures    int64            `json:"failures"`
}

// Flush writes the statistics of every property touched by this process.
func Flush() {
	path := os.Getenv("VERIF_STATS")
	if path == "" {
		return
	}
	cmu.Lock()
	defer cmu.Unlock()
	var outs []outFile
	var all []uint64
	for _, c := range collectors {
		c.mu.Lock()
		o := outFile{c.Property, c.Rule, c.Evaluations, c.NonTrivial, int64(len(c.hashes)), c.Classes, c.Counters, append([]sample(nil), c.first...), c.Failures}
		if c.largest != nil {
			o.Samples = append(o.Samples, *c.largest)
		}
		ph := fnv.New64a()
		ph.Write([]byte(c.Property))
		salt := ph.Sum64()
		for h := range c.hashes {
			all = append(all, h^salt)
		}
		c.mu.Unlock()
		outs = append(outs, o)
	}
	sort.Slice(outs, func(i, j int) bool { return outs[i].Property < outs[j].Property })
	b, _ := json.Marshal(outs)
	_ = os.WriteFile(path, b, 0o644)
	sort.Slice(all, func(i, j int) bool { return all[i] < all[j] })
	hb := make([]byte, 8*len(all))
	for i, h := range all {
		binary.LittleEndian.PutUint64(hb[8*i:], h)
	}
	_ = os.WriteFile(path+".hashes", hb, 0o644)
}

// Main is the TestMain body of every harness package.
func Main(m *testing.M) {
	code := m.Run()
	Flush()
	os.Exit(code)
}

// Pct draws an (almost) uniform integer in 0..99. rapid's integer generators are biased
// towards small values and range bounds (about 30% of IntRange(0,99) draws are below 4),
// which is wrong for weighted choices; fair coin flips are not biased, and still shrink
// towards 0.
func Pct(t *rapid.T, label string) int {
	v := 0
	for i := 0; i < 10; i++ {
		if rapid.Bool().Draw(t, label) {
			v |= 1 << i
		}
	}
	return v * 100 / 1024
}

// Pick draws an (almost) uniform index in 0..n-1 (n <= 1024).
func Pick(t *rapid.T, n int, label string) int {
	v := 0
	for i := 0; i < 10; i++ {
		if rapid.Bool().Draw(t, label) {
			v |= 1 << i
		}
	}
	return v * n / 1024
}

// From draws an (almost) uniform element of s.
func From[T any](t *rapid.T, s []T, label string) T {
	return s[Pick(t, len(s), label)]
}

// Bits draws an n-bit uniform integer from fair coin flips.
func Bits(t *rapid.T, n int, label string) int {
	v := 0
	for i := 0; i < n; i++ {
		if rapid.Bool().Draw(t, label) {
			v |= 1 << i
		}
	}
	return v
}

// Fuzz exposes a property as a native (coverage-guided) fuzz target: Go's fuzzer mutates the
// byte stream that rapid's generators draw from (rapid.MakeFuzz), so the same generators and
// the same oracle are explored under coverage feedback from the code under test. Failing
// cases are written as the usual JSON replay files.
func Fuzz[C any](f *testing.F, p Prop[C]) {
	// rapid consumes 8 bytes of input per primitive draw, so useful inputs are long: seed the
	// corpus with a few pseudo-random buffers (fixed LCG, no run-time randomness)
	for _, seed := range []uint64{1, 0x9e3779b97f4a7c15, 42} {
		buf := make([]byte, 24<<10)
		x := seed
		for i := range buf {
			x = x*6364136223846793005 + 1442695040888963407
			buf[i] = byte(x >> 56)
		}
		f.Add(buf)
	}
	inner := rapid.MakeFuzz(func(rt *rapid.T) {
		c := p.Gen(rt)
		v := guardedFuzz(p, c)
		if v.Fail != "" {
			writeFail(p.ID, c, v)
			rt.Fatalf("%s", v.Fail)
		}
	})
	f.Fuzz(func(t *testing.T, in []byte) {
		fuzzT = t // property bodies that need a *testing.T (synctest) get the worker's
		inner(t, in)
	})
}

var fuzzT *testing.T

func guardedFuzz[C any](p Prop[C], c C) (v *Verdict) {
	defer func() {
		if r := recover(); r != nil {
			stack := string(debug.Stack())
			if !inCodeUnderTest(stack) {
				panic(r)
			}
			v = &Verdict{}
			v.Failf("panic", "panic in the code under test: %v\n%s", r, trimStack(stack))
		}
	}()
	return p.Check(fuzzT, c)
}
