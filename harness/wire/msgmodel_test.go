package wire

import (
	"fmt"
	"math"
	"strings"
	"time"

	sse "github.com/tmaxmax/go-sse"
	"pgregory.net/rapid"

	"verif/harness/oracle"
	"verif/harness/stats"
)

// MsgOp is one AppendData/AppendComment call.
type MsgOp struct {
	Comment bool      `json:"comment,omitempty"`
	Texts   []stats.B `json:"texts"`
}

// MsgCase is a message built through the public API.
type MsgCase struct {
	Ops     []MsgOp  `json:"ops,omitempty"`
	ID      *stats.B `json:"id,omitempty"`   // given to NewID (a rejected value leaves the ID unset)
	Type    *stats.B `json:"type,omitempty"` // given to NewType
	RetryNs int64    `json:"retry,omitempty"`
	// CloneAt > 0: after that many append calls the message is cloned and the CLONE gets an extra
	// line; the rest of the calls go to the original, which must not see the clone's line
	CloneAt int `json:"cloneat,omitempty"`
}

var hostile = []string{
	"\n", "\r", "\r\n", "\n", "\r\n", ":", ": ", " ", "  ",
	"id: x", "id:1", "data:", "data: y", "data", "retry: 1", "event: e", "event:", "id", ":c",
	"\xEF\xBB\xBF", "\x00", "", "x", "hello", "a b", "é", "€", "\xff", "\xc3", "\t", "0", "42",
}

// genText concatenates 0..5 hostile tokens.
var genText = rapid.Custom(func(t *rapid.T) stats.B {
	n := stats.Pick(t, 6, "ntoks")
	var b strings.Builder
	for i := 0; i < n; i++ {
		b.WriteString(stats.From(t, hostile, "tok"))
	}
	// occasionally a long run, with lengths swept around small-buffer sizes
	if stats.Pct(t, "longrun") >= 90 { // (high values, so that a shrunk case has no long run)
		var n int
		switch stats.Pick(t, 6, "runkind") {
		case 0, 1, 2, 3:
			n = 1 + stats.Pick(t, 300, "run300") // every length up to 300: fixed-size line buffers of any small size
		case 4:
			n = stats.From(t, []int{505, 1017, 2041}, "runbase") + stats.Pick(t, 14, "runpow2")
		default:
			n = 4088 + stats.Pick(t, 14, "run4096")
		}
		b.WriteString(strings.Repeat("x", n))
	}
	return stats.B(b.String())
})

var retryChoices = []int64{0, 0, -1, int64(-5 * time.Second), 1, 999_999, 1_000_000, 1_000_001, 1_999_999, int64(1500 * time.Millisecond), int64(time.Hour), math.MaxInt64, math.MaxInt64 - 1, 9_223_372_036_854_000_000, int64(999999999999 * time.Millisecond)}

func genMsg(nulFreeID bool) *rapid.Generator[MsgCase] {
	return rapid.Custom(func(t *rapid.T) MsgCase {
		var m MsgCase
		nops := stats.Pick(t, 6, "nops")
		for i := 0; i < nops; i++ {
			op := MsgOp{Comment: stats.Pct(t, "iscomment") < 35}
			nt := 1 + stats.Pick(t, 3, "ntexts")
			for j := 0; j < nt; j++ {
				op.Texts = append(op.Texts, genText.Draw(t, "text"))
			}
			m.Ops = append(m.Ops, op)
		}
		if nops > 0 && stats.Pct(t, "cloneat") >= 85 {
			m.CloneAt = 1 + stats.Pick(t, nops, "cloneatn")
		}
		if stats.Pct(t, "hasid") < 60 {
			id := genText.Draw(t, "id")
			if nulFreeID {
				id = stats.B(strings.ReplaceAll(string(id), "\x00", "0"))
			}
			m.ID = &id
		}
		if stats.Pct(t, "hastype") < 50 {
			tp := genText.Draw(t, "type")
			m.Type = &tp
		}
		if stats.Pct(t, "hasretry") < 50 {
			if stats.Pct(t, "retrykind") < 70 {
				m.RetryNs = stats.From(t, retryChoices, "retry")
			} else {
				m.RetryNs = rapid.Int64().Draw(t, "retryns")
			}
		}
		return m
	})
}

func multiLine(s string) bool { return strings.ContainsAny(s, "\r\n") }

// buildMsg constructs the real message and its model; it fails when NewID/NewType accept
// or reject the wrong inputs (exactly the multi-line ones must be rejected).
func buildMsg(c MsgCase) (*sse.Message, oracle.Msg, string) {
	m := &sse.Message{}
	var mod oracle.Msg
	var clone *sse.Message
	defer func() {
		// the clone is appended to only after the original has received all its lines: with a
		// shared backing array that write would land in a slot the original already uses
		if clone != nil {
			clone.AppendData("line-that-belongs-to-the-clone-only")
		}
	}()
	for i, op := range c.Ops {
		if c.CloneAt > 0 && i == c.CloneAt {
			clone = m.Clone()
		}
		texts := make([]string, len(op.Texts))
		for i, s := range op.Texts {
			texts[i] = string(s)
			mod.Chunks = append(mod.Chunks, oracle.Chunk{Comment: op.Comment, Text: string(s)})
		}
		if op.Comment {
			m.AppendComment(texts...)
		} else {
			m.AppendData(texts...)
		}
	}
	if c.ID != nil {
		id, err := sse.NewID(string(*c.ID))
		if multiLine(string(*c.ID)) {
			if err == nil || id.IsSet() {
				return nil, mod, fmt.Sprintf("NewID(%q) accepted a multi-line value (set=%v err=%v)", *c.ID, id.IsSet(), err)
			}
		} else {
			if err != nil || !id.IsSet() || id.String() != string(*c.ID) {
				return nil, mod, fmt.Sprintf("NewID(%q) = (%q set=%v, %v), want it accepted", *c.ID, id.String(), id.IsSet(), err)
			}
			mod.IDSet, mod.ID = true, string(*c.ID)
		}
		m.ID = id
	}
	if c.Type != nil {
		tp, err := sse.NewType(string(*c.Type))
		if multiLine(string(*c.Type)) {
			if err == nil || tp.IsSet() {
				return nil, mod, fmt.Sprintf("NewType(%q) accepted a multi-line value", *c.Type)
			}
		} else {
			if err != nil || !tp.IsSet() || tp.String() != string(*c.Type) {
				return nil, mod, fmt.Sprintf("NewType(%q) = (%q set=%v, %v), want it accepted", *c.Type, tp.String(), tp.IsSet(), err)
			}
			mod.TypeSet, mod.Type = true, string(*c.Type)
		}
		m.Type = tp
	}
	m.Retry = time.Duration(c.RetryNs)
	mod.Retry = time.Duration(c.RetryNs)
	return m, mod, ""
}

// interesting reports whether a payload looks like protocol syntax.
func interestingPayload(s string) bool {
	if strings.ContainsAny(s, "\r\n") || strings.HasPrefix(s, " ") {
		return true
	}
	if i := strings.IndexByte(s, ':'); i >= 0 && i <= 6 {
		return true
	}
	for _, p := range []string{"id", "data", "event", "retry"} {
		if strings.HasPrefix(s, p) {
			return true
		}
	}
	return false
}

func (c MsgCase) interesting() bool {
	for _, op := range c.Ops {
		for _, s := range op.Texts {
			if interestingPayload(string(s)) {
				return true
			}
		}
	}
	if c.ID != nil && interestingPayload(string(*c.ID)) {
		return true
	}
	if c.Type != nil && interestingPayload(string(*c.Type)) {
		return true
	}
	return false
}
