package wire

import (
	"fmt"
	"strings"
	"testing"

	sse "github.com/tmaxmax/go-sse"
	"pgregory.net/rapid"

	"verif/harness/oracle"
	"verif/harness/stats"
)

const ruleC02 = "rapid-generated sequences of 1..4 messages, each built through the public API from hostile strings (CR/LF/CRLF runs, colons, leading/trailing spaces, field look-alikes, BOM, NUL, invalid UTF-8) for AppendData/AppendComment in any order, NewID/NewType, and Retry from {negative, 0, <1ms, 1ms, large, MaxInt64, random}; every wire form alone and their concatenation are decoded by the strict WHATWG reference interpreter and by sse.Read, and both must equal the event list computed from the models alone; the bytes must equal the reference encoding. Non-trivial: at least one payload contains CR/LF, a colon within the first 7 bytes, a leading space or a field-name prefix. Distinct: FNV-64 of the JSON of the case."

type C02Case struct {
	Msgs   []MsgCase `json:"msgs"`
	Plan   Plan      `json:"plan"`
	Repeat int       `json:"repeat,omitempty"` // the concatenation repeats the message list this many times (long streams)
}

func genC02(t *rapid.T) C02Case {
	n := 1 + stats.Pick(t, 4, "nmsgs")
	var c C02Case
	for i := 0; i < n; i++ {
		c.Msgs = append(c.Msgs, genMsg(false).Draw(t, "msg"))
	}
	c.Plan = genPlan.Draw(t, "plan")
	for _, m := range c.Msgs {
		for _, op := range m.Ops {
			for _, tx := range op.Texts {
				if len(tx) > 600 { // tiny reads over a multi-KiB line cost quadratic time in the scanner
					for i := range c.Plan.Sizes {
						if c.Plan.Sizes[i] < 128 {
							c.Plan.Sizes[i] += 128
						}
					}
				}
			}
		}
	}
	if stats.Pct(t, "repeat") < 4 {
		c.Repeat = 50 + stats.Pick(t, 400, "repeatn")
		for i := range c.Plan.Sizes {
			if c.Plan.Sizes[i] < 64 {
				c.Plan.Sizes[i] += 64
			}
		}
	}
	return c
}

type wantEvent struct{ id, typ, data string }

// expectedEvents computes, from the models alone, what a decoder must see for the
// concatenation of the messages; lastID threads through.
func expectedEvents(mods []oracle.Msg, strict bool) []wantEvent {
	var out []wantEvent
	lastID := ""
	for _, m := range mods {
		idCounts := m.IDSet && !strings.Contains(m.ID, "\x00")
		if idCounts {
			lastID = m.ID
		}
		lines := m.DataLines()
		dispatch := len(lines) > 0
		if !strict {
			dispatch = dispatch || m.TypeSet || idCounts
		}
		if dispatch {
			out = append(out, wantEvent{lastID, m.Type, strings.Join(lines, "\n")})
		}
	}
	return out
}

func compareEvents(what string, got []wantEvent, want []wantEvent) string {
	if len(got) != len(want) {
		return fmt.Sprintf("%s: %d events, want %d\n got  %q\n want %q", what, len(got), len(want), got, want)
	}
	for i := range got {
		if got[i] != want[i] {
			return fmt.Sprintf("%s: event %d is %q, want %q", what, i, got[i], want[i])
		}
	}
	return ""
}

func decodeBoth(what string, wire string, plan Plan, mods []oracle.Msg) string {
	ref := oracle.Interpret([]byte(wire), "", oracle.Strict)
	if ref.UnexpectedEOF {
		return fmt.Sprintf("%s: wire form %q ends in an unterminated line", what, wire)
	}
	var got []wantEvent
	for _, e := range ref.Events {
		got = append(got, wantEvent{e.LastEventID, e.Type, e.Data})
	}
	if f := compareEvents(what+" decoded by the strict WHATWG reference", got, expectedEvents(mods, true)); f != "" {
		return f + fmt.Sprintf("\n wire %q", wire)
	}
	items, extra, _ := readAll([]byte(wire), plan, nil, -1, nil)
	if extra != 0 {
		return "yield called after false"
	}
	got = nil
	for _, it := range items {
		if it.err != nil {
			return fmt.Sprintf("%s: sse.Read reported %v for wire %q", what, it.err, wire)
		}
		got = append(got, wantEvent{it.ev.LastEventID, it.ev.Type, it.ev.Data})
	}
	if f := compareEvents(what+" decoded by sse.Read", got, expectedEvents(mods, false)); f != "" {
		return f + fmt.Sprintf("\n wire %q", wire)
	}
	return ""
}

func checkC02(t *testing.T, c C02Case) *stats.Verdict {
	v := &stats.Verdict{Size: len(c.Msgs)}
	var mods []oracle.Msg
	var wires []string
	for i, mc := range c.Msgs {
		m, mod, f := buildMsg(mc)
		if f != "" {
			return v.Failf("constructor", "message %d: %s", i, f)
		}
		wire := m.String()
		if want := oracle.Encode(mod); wire != want {
			return v.Failf("", "message %d encodes to %q, reference encoding is %q (case %+v)", i, wire, want, mc)
		}
		mods = append(mods, mod)
		wires = append(wires, wire)
		if mc.interesting() {
			v.NonTrivial = true
		}
		classifyMsg(v, mc, mod)
	}
	for i := range wires {
		if f := decodeBoth(fmt.Sprintf("message %d alone", i), wires[i], c.Plan, mods[i:i+1]); f != "" {
			return v.Failf("", "%s", f)
		}
	}
	if len(wires) > 1 {
		v.Class("concatenation")
		if f := decodeBoth("concatenation", strings.Join(wires, ""), c.Plan, mods); f != "" {
			return v.Failf("", "%s", f)
		}
	}
	if c.Repeat > 1 {
		v.Class("long-concatenation")
		one := strings.Join(wires, "")
		var allMods []oracle.Msg
		for i := 0; i < c.Repeat; i++ {
			allMods = append(allMods, mods...)
		}
		if len(one)*c.Repeat < 1<<20 {
			if f := decodeBoth(fmt.Sprintf("concatenation repeated %d times", c.Repeat), strings.Repeat(one, c.Repeat), c.Plan, allMods); f != "" {
				if len(f) > 3000 {
					f = f[:3000] + "..."
				}
				return v.Failf("", "%s", f)
			}
		}
	}
	return v
}

func classifyMsg(v *stats.Verdict, mc MsgCase, mod oracle.Msg) {
	for _, op := range mc.Ops {
		for _, s := range op.Texts {
			str := string(s)
			if strings.Contains(strings.ReplaceAll(str, "\r\n", ""), "\r") {
				v.Class("cr-only-break")
			}
			if strings.HasSuffix(str, "\n") || strings.HasSuffix(str, "\r") {
				v.Class("trailing-break")
			}
			if strings.Contains(str, "\n\n") || strings.Contains(str, "\r\r") || strings.Contains(str, "\n\r") {
				v.Class("empty-line-inside")
			}
		}
	}
	if mod.IDSet && strings.Contains(mod.ID, "\x00") {
		v.Class("nul-id")
	}
	if mc.ID != nil && !mod.IDSet {
		v.Class("id-rejected")
	}
	if mod.Retry.Milliseconds() >= 1e12 {
		v.Class("huge-retry")
	}
	if mod.Retry < 0 {
		v.Class("negative-retry")
	}
	if oracle.Encode(mod) == "" {
		v.Class("encodes-to-nothing")
	}
	if len(mod.DataLines()) == 0 && (mod.IDSet || mod.TypeSet) {
		v.Class("no-data-but-id-or-type")
	}
}

func TestC02(t *testing.T) {
	stats.Run(t, stats.Prop[C02Case]{ID: "C02", Rule: ruleC02, Gen: genC02, Check: checkC02})
}

var _ = sse.ErrUnexpectedEOF
