package wire

import (
	"errors"
	"fmt"
	"testing"

	sse "github.com/tmaxmax/go-sse"
	"pgregory.net/rapid"

	"verif/harness/oracle"
	"verif/harness/stats"
)

const ruleC11Read = "sse.Read part of C11: rapid-generated streams (C01 generators) x read plan, ended by an injected read error after the last byte (so the error may arrive in mid-line, at a line end or at a block end). Oracle: the events of all completed blocks are yielded intact, then exactly one item carrying the read error itself (errors.Is) and NOT ErrUnexpectedEOF, nothing after it. Non-trivial: the stream ends in mid-line or its last block is field-less."

var errReadBoom = errors.New("harness: injected read error")

type C11ReadCase struct {
	Toks []Tok `json:"toks"`
	Plan Plan  `json:"plan"`
}

func genC11Read(t *rapid.T) C11ReadCase {
	return C11ReadCase{Toks: genAnyStream.Draw(t, "stream"), Plan: genPlan.Draw(t, "plan")}
}

func checkC11Read(t *testing.T, c C11ReadCase) *stats.Verdict {
	stream := build(c.Toks)
	v := &stats.Verdict{Size: len(c.Toks)}
	if longRetry(stream) {
		return v
	}
	ref := oracle.Interpret(stream, "", oracle.Read)
	// events dispatched by a blank line (the pending event at the end is NOT flushed on a read error)
	var want []oracle.Event
	for _, b := range ref.Blocks {
		if b.Terminated && b.Event >= 0 {
			want = append(want, ref.Events[b.Event])
		}
	}
	items, extra, _ := readAll(stream, c.Plan, nil, -1, errReadBoom)
	desc := fmt.Sprintf("sse.Read(%q + read error) plan=%+v\n got  %s\n want %s + the read error", stream2s(stream), c.Plan, fmtItems(items), fmtRef(want))
	if extra != 0 {
		return v.Failf("", "yield after stop: %s", desc)
	}
	if len(items) != len(want)+1 {
		return v.Failf("", "got %d items, want %d events and one error: %s", len(items), len(want), desc)
	}
	for i, w := range want {
		if items[i].err != nil || !sameEvent(items[i].ev, w) {
			return v.Failf("", "item %d differs: %s", i, desc)
		}
	}
	last := items[len(items)-1]
	if last.ev != (sse.Event{}) {
		return v.Failf("", "the error item carries an event: %s", desc)
	}
	if !errors.Is(last.err, errReadBoom) || errors.Is(last.err, sse.ErrUnexpectedEOF) {
		return v.Failf("read-error-not-itself", "the read error was reported as %v: %s", last.err, desc)
	}
	fieldless := len(ref.Blocks) > 0 && ref.Blocks[len(ref.Blocks)-1].Event < 0 && !ref.UnexpectedEOF
	v.NonTrivial = ref.UnexpectedEOF || fieldless
	if ref.UnexpectedEOF {
		v.Class("read-error-in-mid-line")
	}
	if fieldless {
		v.Class("read-error-after-fieldless-block")
	}
	return v
}

func TestC11Read(t *testing.T) {
	stats.Run(t, stats.Prop[C11ReadCase]{ID: "C11", Rule: ruleC11Read, Gen: genC11Read, Check: checkC11Read})
}
