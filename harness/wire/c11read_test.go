package wire

import (
	"errors"
	"fmt"
	"io"
	"testing"

	sse "github.com/tmaxmax/go-sse"
	"pgregory.net/rapid"

	"verif/harness/oracle"
	"verif/harness/stats"
)

const ruleC11Read = "sse.Read part of C11: rapid-generated streams (C01 generators) x read plan, ended by an injected read error after the last byte (so the error may arrive in mid-line, at a line end or at a block end). Oracle: the events of all completed blocks are yielded intact, then exactly one item carrying the read error itself (errors.Is) and NOT ErrUnexpectedEOF, nothing after it. Non-trivial: the stream ends in mid-line or its last block is field-less."

var (
	errReadBoom = errors.New("harness: injected read error")
	// read errors of the transport's own making that WRAP the end-of-file sentinels: they are
	// still read errors (a reset connection is not a clean end of the stream)
	errReadWrapsEOF  = fmt.Errorf("harness: connection reset by peer: %w", io.EOF)
	errReadWrapsUEOF = fmt.Errorf("harness: body truncated: %w", io.ErrUnexpectedEOF)
)

type C11ReadCase struct {
	Toks    []Tok  `json:"toks"`
	Plan    Plan   `json:"plan"`
	ErrKind string `json:"errkind,omitempty"` // "" plain | wraps-eof | wraps-ueof
}

func (c C11ReadCase) err() error {
	switch c.ErrKind {
	case "wraps-eof":
		return errReadWrapsEOF
	case "wraps-ueof":
		return errReadWrapsUEOF
	}
	return errReadBoom
}

func genC11Read(t *rapid.T) C11ReadCase {
	return C11ReadCase{Toks: genAnyStream.Draw(t, "stream"), Plan: genPlan.Draw(t, "plan"), ErrKind: stats.From(t, []string{"", "", "wraps-eof", "wraps-ueof"}, "errkind")}
}

func checkC11Read(t *testing.T, c C11ReadCase) *stats.Verdict {
	stream := build(c.Toks)
	v := &stats.Verdict{Size: len(c.Toks)}
	if longRetry(stream) {
		return v
	}
	ref := oracle.Interpret(stream, "", oracle.Read)
	// events dispatched by a blank line (the pending event at the end is NOT flushed on a read error)
	var want []oracle.Event
	for _, b := range ref.Blocks {
		if b.Terminated && b.Event >= 0 {
			want = append(want, ref.Events[b.Event])
		}
	}
	items, extra, _ := readAll(stream, c.Plan, nil, -1, c.err())
	desc := fmt.Sprintf("sse.Read(%q + read error) plan=%+v\n got  %s\n want %s + the read error", stream2s(stream), c.Plan, fmtItems(items), fmtRef(want))
	if extra != 0 {
		return v.Failf("", "yield after stop: %s", desc)
	}
	if len(items) != len(want)+1 {
		return v.Failf("", "got %d items, want %d events and one error: %s", len(items), len(want), desc)
	}
	for i, w := range want {
		if items[i].err != nil || !sameEvent(items[i].ev, w) {
			return v.Failf("", "item %d differs: %s", i, desc)
		}
	}
	last := items[len(items)-1]
	if last.ev != (sse.Event{}) {
		return v.Failf("", "the error item carries an event: %s", desc)
	}
	if !errors.Is(last.err, c.err()) || errors.Is(last.err, sse.ErrUnexpectedEOF) {
		return v.Failf("read-error-not-itself", "the read error was reported as %v: %s", last.err, desc)
	}
	fieldless := len(ref.Blocks) > 0 && ref.Blocks[len(ref.Blocks)-1].Event < 0 && !ref.UnexpectedEOF
	v.NonTrivial = ref.UnexpectedEOF || fieldless
	if ref.UnexpectedEOF {
		v.Class("read-error-in-mid-line")
	}
	v.Class("errkind:" + c.ErrKind)
	if fieldless {
		v.Class("read-error-after-fieldless-block")
	}
	return v
}

func TestC11Read(t *testing.T) {
	stats.Run(t, stats.Prop[C11ReadCase]{ID: "C11", Rule: ruleC11Read, Gen: genC11Read, Check: checkC11Read})
}
