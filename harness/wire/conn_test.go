package wire

import (
	"context"
	"errors"
	"fmt"
	"io"
	"net/http"
	"testing"
	"testing/synctest"
	"time"

	sse "github.com/tmaxmax/go-sse"
)

type rtFunc func(*http.Request) (*http.Response, error)

func (f rtFunc) RoundTrip(r *http.Request) (*http.Response, error) { return f(r) }

var errScriptEnd = errors.New("harness: no more scripted responses")

type bodyCloser struct{ io.Reader }

func (bodyCloser) Close() error { return nil }

type connResult struct {
	events    []sse.Event
	retryErrs []error // error passed to OnRetry after attempt i
	final     error
	attempts  int
	lastIDs   []string // Last-Event-ID header of each attempt
	readers   []*chunkReader
	panicked  any
}

// runConn serves the given streams, one per attempt, to a real sse.Connection through a
// scripted RoundTripper inside a synctest bubble (waits are virtual). With a single stream
// retries are disabled; with several, each further attempt is one retry and the attempt
// after the last stream fails at the transport, which ends Connect.
func runConn(t *testing.T, streams [][]byte, plan Plan, buf []byte, bufMax int) (res connResult) {
	defer func() {
		if r := recover(); r != nil {
			res.panicked = r
		}
	}()
	synctest.Test(t, func(t *testing.T) {
		cl := &sse.Client{
			ResponseValidator: sse.NoopValidator,
			Backoff:           sse.Backoff{MaxRetries: -1},
			OnRetry:           func(err error, _ time.Duration) { res.retryErrs = append(res.retryErrs, err) },
		}
		if len(streams) > 1 {
			cl.Backoff = sse.Backoff{MaxRetries: 1, InitialInterval: time.Nanosecond}
		}
		cl.HTTPClient = &http.Client{Transport: rtFunc(func(r *http.Request) (*http.Response, error) {
			i := res.attempts
			res.attempts++
			res.lastIDs = append(res.lastIDs, r.Header.Get("Last-Event-ID"))
			if i >= len(streams) {
				return nil, errScriptEnd
			}
			cr := &chunkReader{Data: streams[i], Plan: plan}
			res.readers = append(res.readers, cr)
			return &http.Response{StatusCode: 200, Header: http.Header{"Content-Type": {"text/event-stream"}}, Body: bodyCloser{cr}, Request: r}, nil
		})}
		req, err := http.NewRequestWithContext(context.Background(), http.MethodGet, "http://harness.invalid/", nil)
		if err != nil {
			panic(err)
		}
		conn := cl.NewConnection(req)
		if buf != nil || bufMax > 0 {
			conn.Buffer(buf, bufMax)
		}
		conn.SubscribeToAll(func(e sse.Event) { res.events = append(res.events, e) })
		res.final = conn.Connect()
	})
	return res
}

func fmtEvents(evs []sse.Event) string {
	s := "["
	for _, e := range evs {
		s += fmt.Sprintf("{id=%q type=%q data=%q}", e.LastEventID, e.Type, e.Data)
	}
	return s + "]"
}
