package wire

import (
	"bytes"
	"errors"
	"fmt"
	"strings"
	"testing"
	"time"

	sse "github.com/tmaxmax/go-sse"
	"pgregory.net/rapid"

	"verif/harness/oracle"
	"verif/harness/stats"
)

const ruleC15 = "rapid-generated messages built through the public API (hostile strings incl. long runs, NUL-free IDs, all Retry classes, optional clone in the middle); (i) WriteTo/MarshalText/String give identical bytes equal to the reference encoding with n == len, and a MarshalText result stays that while another message and the same one are marshalled again and is not shared with the message; (ii) UnmarshalText of those bytes succeeds, re-encodes identically and reproduces ID, type, retry (ms) and the ordered data/comment lines; (iii) for EVERY Write call index k of the clean encoding and two failure modes (error with 0 bytes accepted; short write of a drawn proper prefix with an error), WriteTo must return exactly the injected error, n == bytes accepted, the accepted bytes must be the length-n prefix of the full encoding and no Write may follow the failing one; (iii-b) the same for a writer that accepts exactly B bytes in total and then fails, for every B below the encoding length (strided beyond 300 bytes), which does not depend on how the encoder groups its writes. Non-trivial: the message has an ID or type, at least one data and one comment line (every writer path runs) and at least 6 fault points were executed. Distinct: FNV-64 of the JSON of the case."

type C15Case struct {
	Msg      MsgCase `json:"msg"`
	ShortPct int     `json:"shortpct"` // short write accepts ShortPct% of the failing Write's bytes (proper prefix)
}

func genC15(t *rapid.T) C15Case {
	return C15Case{Msg: genMsg(true).Draw(t, "msg"), ShortPct: stats.Pct(t, "shortpct")}
}

var errInjected = errors.New("harness: injected write failure")

// faultWriter fails at Write call number failAt (0-based), accepting `accept` bytes of it
// (-1: all of it but still reporting the error is not allowed by io.Writer; we use a
// proper prefix).
type faultWriter struct {
	buf        bytes.Buffer
	calls      int
	failAt     int
	shortPct   int // <0: accept nothing
	sizes      []int
	afterFail  int
	failedOnce bool
}

func (w *faultWriter) Write(p []byte) (int, error) {
	i := w.calls
	w.calls++
	if w.failedOnce {
		w.afterFail++
		return 0, errInjected
	}
	w.sizes = append(w.sizes, len(p))
	if i == w.failAt {
		w.failedOnce = true
		n := 0
		if w.shortPct >= 0 && len(p) > 1 {
			n = len(p) * w.shortPct / 100
			if n >= len(p) {
				n = len(p) - 1
			}
		}
		w.buf.Write(p[:n])
		return n, errInjected
	}
	w.buf.Write(p)
	return len(p), nil
}

// budgetWriter accepts exactly budget bytes in total, then fails (with a short write when a
// call crosses the budget).
type budgetWriter struct {
	buf       bytes.Buffer
	budget    int
	failed    bool
	afterFail int
}

func (w *budgetWriter) Write(p []byte) (int, error) {
	if w.failed {
		w.afterFail++
		return 0, errInjected
	}
	room := w.budget - w.buf.Len()
	if len(p) < room {
		w.buf.Write(p)
		return len(p), nil
	}
	// this call reaches or crosses the budget: accept what fits and fail
	w.failed = true
	w.buf.Write(p[:room])
	return room, errInjected
}

func checkC15(t *testing.T, c C15Case) *stats.Verdict {
	v := &stats.Verdict{Size: len(c.Msg.Ops)}
	m, mod, f := buildMsg(c.Msg)
	if f != "" {
		return v.Failf("constructor", "%s", f)
	}
	want := oracle.Encode(mod)

	// (i) three encoders agree with the reference, exact byte count
	clean := &faultWriter{failAt: -1}
	n, err := m.WriteTo(clean)
	if err != nil || clean.buf.String() != want || n != int64(len(want)) {
		return v.Failf("", "WriteTo = (%d, %v) wrote %q, reference encoding %q (len %d)", n, err, clean.buf.String(), want, len(want))
	}
	mt, err := m.MarshalText()
	if err != nil || string(mt) != want {
		return v.Failf("", "MarshalText = (%q, %v), want %q", mt, err, want)
	}
	if s := m.String(); s != want {
		return v.Failf("", "String = %q, want %q", s, want)
	}
	// the returned bytes are the caller's: they stay the encoding of m while other messages
	// (and m again) are marshalled, and scribbling over them does not reach m
	other := &sse.Message{}
	other.AppendData(strings.Repeat("Z", len(want)+8))
	omt, _ := other.MarshalText()
	ostr := other.String()
	if string(mt) != want {
		return v.Failf("", "the bytes MarshalText returned changed to %q after another message was marshalled, want %q", mt, want)
	}
	mt2, _ := m.MarshalText()
	if string(omt) != ostr || string(mt2) != want {
		return v.Failf("", "two MarshalText results held at once: other = %q (want %q), m = %q (want %q)", omt, ostr, mt2, want)
	}
	for i := range mt {
		mt[i] = 'X'
	}
	if s := m.String(); s != want || string(mt2) != want {
		return v.Failf("", "after overwriting the bytes MarshalText returned: String = %q, second result %q, want %q", s, mt2, want)
	}
	if want == "" {
		v.Class("nothing-to-write")
		if clean.calls != 0 {
			v.Count("writes_for_empty_message", int64(clean.calls))
		}
	}

	// (ii) text round trip
	if want != "" {
		var back sse.Message
		buf := []byte(want)
		err := back.UnmarshalText(buf)
		for i := range buf {
			buf[i] = 'X' // the caller owns its buffer and reuses it
		}
		if err != nil {
			return v.Failf("", "UnmarshalText(MarshalText(m)) failed: %v (wire %q)", err, want)
		}
		if got := back.String(); got != want {
			return v.Failf("", "round trip changed the encoding:\n before %q\n after  %q", want, got)
		}
		if back.ID.IsSet() != mod.IDSet || back.ID.String() != mod.ID {
			return v.Failf("", "round trip ID = (%q,set=%v), want (%q,set=%v)", back.ID.String(), back.ID.IsSet(), mod.ID, mod.IDSet)
		}
		if back.Type.IsSet() != mod.TypeSet || back.Type.String() != mod.Type {
			return v.Failf("", "round trip type = (%q,set=%v), want (%q,set=%v)", back.Type.String(), back.Type.IsSet(), mod.Type, mod.TypeSet)
		}
		wantRetry := time.Duration(0)
		if ms := mod.Retry.Milliseconds(); ms >= 1 {
			wantRetry = time.Duration(ms) * time.Millisecond
		}
		if back.Retry != wantRetry {
			return v.Failf("", "round trip retry = %v, want %v (original %v)", back.Retry, wantRetry, mod.Retry)
		}
		v.Class("round-trip")
	}

	// (iii) exhaustive single-fault enumeration over the Write calls of the clean run
	triples := 0
	for k := 0; k < clean.calls; k++ {
		for _, short := range []int{-1, c.ShortPct} {
			fw := &faultWriter{failAt: k, shortPct: short}
			n, err := m.WriteTo(fw)
			triples++
			if err != errInjected { //nolint:errorlint // identity is the claim
				return v.Failf("", "Write #%d failed but WriteTo returned err=%v (wire %q)", k, err, want)
			}
			if n != int64(fw.buf.Len()) {
				return v.Failf("", "Write #%d failed after the writer accepted %d bytes in total, WriteTo reported n=%d (short=%d%%, write sizes %v, wire %q)", k, fw.buf.Len(), n, short, fw.sizes, want)
			}
			if fw.buf.String() != want[:fw.buf.Len()] {
				return v.Failf("", "Write #%d failed: accepted bytes %q are not a prefix of %q", k, fw.buf.String(), want)
			}
			if fw.afterFail != 0 {
				return v.Failf("", "Write #%d failed but %d more Write call(s) followed (wire %q)", k, fw.afterFail, want)
			}
		}
	}
	// (iii-b) the same, independent of how the encoder groups its writes: a writer that accepts
	// exactly B bytes in total and then fails, for every B below the length (a stride for long
	// encodings)
	stride := 1
	if len(want) > 300 {
		stride = len(want)/150 + 1
	}
	budgets := 0
	for b := c.ShortPct % stride; b < len(want); b += stride {
		bw := &budgetWriter{budget: b}
		n, err := m.WriteTo(bw)
		budgets++
		if err != errInjected { //nolint:errorlint // identity is the claim
			return v.Failf("", "writer stopped accepting after %d bytes but WriteTo returned err=%v (wire %q)", b, err, want)
		}
		if n != int64(bw.buf.Len()) || bw.buf.Len() != b {
			return v.Failf("", "writer accepted %d bytes in total (budget %d), WriteTo reported n=%d (wire %q)", bw.buf.Len(), b, n, want)
		}
		if bw.buf.String() != want[:b] {
			return v.Failf("", "writer with a budget of %d bytes received %q, not a prefix of %q", b, bw.buf.String(), want)
		}
		if bw.afterFail != 0 {
			return v.Failf("", "%d Write call(s) followed the failing one (budget %d, wire %q)", bw.afterFail, b, want)
		}
	}
	triples += budgets
	v.Count("byte_budget_faults", int64(budgets))
	v.Count("fault_triples", int64(triples))
	if mod.IDSet {
		v.Class("has-id")
	}
	if mod.Retry.Milliseconds() >= 1 {
		v.Class("has-retry")
	}
	v.NonTrivial = (mod.IDSet || mod.TypeSet) && len(mod.DataLines()) > 0 && len(mod.CommentLines()) > 0 && triples >= 6
	return v
}

func TestC15(t *testing.T) {
	stats.Run(t, stats.Prop[C15Case]{ID: "C15", Rule: ruleC15, Gen: genC15, Check: checkC15})
}

var _ = fmt.Sprint

func FuzzC15(f *testing.F) {
	stats.Fuzz(f, stats.Prop[C15Case]{ID: "C15", Rule: ruleC15, Gen: genC15, Check: checkC15})
}
