package wire

import (
	"testing"

	"verif/harness/gen"
	"verif/harness/stats"
)

func TestMain(m *testing.M) { stats.Main(m) }

type (
	Tok  = gen.Tok
	Plan = gen.Plan
)

var (
	build        = gen.Build
	lineEnds     = gen.LineEnds
	genStream    = gen.Stream
	genLines     = gen.Lines
	genAnyStream = gen.AnyStream
	genPad       = gen.Pad
	genPlan      = gen.GenPlan
)

type chunkReader = gen.ChunkReader
