package wire

import (
	"database/sql"
	"encoding"
	"encoding/json"
	"fmt"
	"net/http"
	"net/http/httptest"
	"strings"
	"testing"
	"time"

	sse "github.com/tmaxmax/go-sse"
	"pgregory.net/rapid"

	"verif/harness/oracle"
	"verif/harness/stats"
)

const ruleC14 = "rapid-generated inputs (hostile strings, >= 40% with CR/LF at a random position incl. first/last byte) fed to every construction route of EventID and EventType: NewID/NewType, ID/Type (panic expected iff multi-line), UnmarshalText, UnmarshalJSON (generated documents: strings with raw/\\n/\\r/\\u000a/\\u000D escapes, null, numbers, objects, truncated), sql Scan (nil, string, []byte, unsupported driver types), Message.UnmarshalText (C01 grammar texts) and the Last-Event-Id header map given to Upgrade (absent, empty, valid, CR/LF, several values). Oracle: IsSet => no CR/LF; multi-line decoded input => unset (and error where the route has one); acceptable single-line input => set and equal; a Message carrying the result encodes to exactly one event with that ID/type. Non-trivial: the (decoded) input contains a line break and the route is not NewID/NewType. Distinct: FNV-64 of the JSON of the case."

type C14Case struct {
	Route     string    `json:"route"` // new | must | text | json | scan | msg | upgrade
	Field     string    `json:"field"` // id | type
	Input     stats.B   `json:"input"`
	JSONStyle int       `json:"jsonstyle,omitempty"`
	ScanKind  int       `json:"scankind,omitempty"`
	PrevSet   bool      `json:"prevset,omitempty"` // the receiver held a set value before the call
	Headers   []stats.B `json:"headers,omitempty"`
	Toks      []Tok     `json:"toks,omitempty"` // msgtext: a wire text from the C01 grammar
	NoHeader  bool      `json:"noheader,omitempty"`
}

var breaks = []string{"\n", "\r", "\r\n", "\n\n", "\r\r\n"}

var genFieldInput = rapid.Custom(func(t *rapid.T) stats.B {
	base := string(genText.Draw(t, "base"))
	if stats.Pct(t, "forcebreak") < 35 {
		pos := 0
		if len(base) > 0 {
			switch stats.Pick(t, 3, "breakpos") {
			case 0:
				pos = 0
			case 1:
				pos = len(base)
			default:
				pos = stats.Pick(t, len(base)+1, "breakat")
			}
		}
		base = base[:pos] + stats.From(t, breaks, "break") + base[pos:]
	}
	return stats.B(base)
})

func genC14(t *rapid.T) C14Case {
	c := C14Case{Field: stats.From(t, []string{"id", "type"}, "field")}
	c.Route = stats.From(t, []string{"new", "must", "text", "json", "json", "scan", "scan", "msg", "msgtext", "upgrade"}, "route")
	c.Input = genFieldInput.Draw(t, "input")
	c.PrevSet = rapid.Bool().Draw(t, "prevset")
	switch c.Route {
	case "json":
		c.JSONStyle = stats.Pick(t, 9, "jsonstyle")
	case "scan":
		c.ScanKind = stats.Pick(t, 7, "scankind")
	case "msgtext":
		c.Toks = genLines.Draw(t, "text")
		c.Input = ""
	case "upgrade":
		c.Field = "id"
		switch stats.Pick(t, 4, "hdrs") {
		case 0:
			c.NoHeader = true
		case 1:
			c.Headers = []stats.B{c.Input}
		case 2:
			c.Headers = []stats.B{c.Input, genFieldInput.Draw(t, "h2")}
		default:
			c.Headers = []stats.B{"", c.Input}
		}
	}
	return c
}

// scribble overwrites a byte slice the way a caller reusing its buffer would.
func scribble(b []byte) {
	for i := range b {
		if i%2 == 0 {
			b[i] = '\n'
		} else {
			b[i] = 'Z'
		}
	}
}

// field abstracts over EventID / EventType.
type field interface {
	IsSet() bool
	String() string
}

type fieldPtr interface {
	field
	encoding.TextUnmarshaler
	json.Unmarshaler
	sql.Scanner
}

// jsonDoc renders the input as a JSON document in one of several styles.
func jsonDoc(in string, style int) string {
	esc := func(nl, cr string) string {
		var b strings.Builder
		b.WriteByte('"')
		for _, r := range in {
			switch r {
			case '\n':
				b.WriteString(nl)
			case '\r':
				b.WriteString(cr)
			case '"':
				b.WriteString(`\"`)
			case '\\':
				b.WriteString(`\\`)
			default:
				if r < 0x20 {
					fmt.Fprintf(&b, `\u%04x`, r)
				} else {
					b.WriteRune(r)
				}
			}
		}
		b.WriteByte('"')
		return b.String()
	}
	switch style {
	case 0:
		b, _ := json.Marshal(in)
		return string(b)
	case 1:
		return esc(`\n`, `\r`)
	case 2:
		return esc(`\u000a`, `\u000D`)
	case 3:
		return esc("\n", "\r") // raw control characters: invalid JSON
	case 4:
		return "null"
	case 5:
		return "12"
	case 6:
		return `{"id":` + esc(`\n`, `\r`) + `}`
	case 7:
		d := esc(`\n`, `\r`)
		return d[:len(d)/2+1] // truncated
	default:
		return "  " + esc(`\n`, `\u000d`) + " \n"
	}
}

func checkC14(t *testing.T, c C14Case) *stats.Verdict {
	v := &stats.Verdict{}
	v.Class("route:" + c.Route)
	in := string(c.Input)
	isID := c.Field == "id"

	var id sse.EventID
	var tp sse.EventType
	if c.PrevSet {
		id, tp = sse.ID("previous"), sse.Type("previous")
	}
	var got field
	var ptr fieldPtr
	if isID {
		ptr = &id
	} else {
		ptr = &tp
	}
	cur := func() field {
		if isID {
			return id
		}
		return tp
	}

	decoded, decodedOK := in, true // what the route should see as the value; decodedOK=false: not a value at all
	wantUnsetNoErr := false
	var err error
	hasErr := true // does the route report errors?
	panicked := false

	switch c.Route {
	case "new":
		if isID {
			id, err = sse.NewID(in)
		} else {
			tp, err = sse.NewType(in)
		}
		got = cur()
	case "must":
		func() {
			defer func() {
				if r := recover(); r != nil {
					panicked = true
					if isID {
						id = sse.EventID{}
					} else {
						tp = sse.EventType{}
					}
				}
			}()
			if isID {
				id = sse.ID(in)
			} else {
				tp = sse.Type(in)
			}
		}()
		got = cur()
		hasErr = false
		if panicked != multiLine(in) {
			return v.Failf("", "%s(%q): panicked=%v, want %v", map[bool]string{true: "ID", false: "Type"}[isID], in, panicked, multiLine(in))
		}
	case "text":
		buf := []byte(in)
		err = ptr.UnmarshalText(buf)
		scribble(buf) // the caller owns (and reuses) its buffer
		got = cur()
	case "json":
		doc := jsonDoc(in, c.JSONStyle)
		buf := []byte(doc)
		err = ptr.UnmarshalJSON(buf)
		scribble(buf)
		got = cur()
		var any interface{}
		if jerr := json.Unmarshal([]byte(doc), &any); jerr != nil {
			decodedOK = false
		} else if s, ok := any.(string); ok {
			decoded = s
		} else if any == nil {
			decodedOK, wantUnsetNoErr = false, true
		} else {
			decodedOK = false
		}
		v.Class(fmt.Sprintf("jsonstyle:%d", c.JSONStyle))
	case "scan":
		var src interface{}
		switch c.ScanKind {
		case 0:
			src = in
		case 1:
			src = []byte(in)
		case 2:
			src, decodedOK, wantUnsetNoErr = nil, false, true
		case 3:
			src, decodedOK = int64(len(in)), false
		case 4:
			src, decodedOK = 1.5, false
		case 5:
			src, decodedOK = true, false
		default:
			src, decodedOK = time.Unix(0, 0), false
		}
		err = ptr.Scan(src)
		if b, ok := src.([]byte); ok {
			scribble(b) // database drivers reuse the row buffer after Scan returned
			v.Class("scan-bytes-then-buffer-reused")
		}
		got = cur()
		v.Class(fmt.Sprintf("scankind:%d", c.ScanKind))
	case "msg":
		// a wire text whose id/event line carries the input verbatim: the parser splits it at
		// every line break, so the value can only be the part up to the first break
		name := "id"
		if !isID {
			name = "event"
		}
		var m sse.Message
		err = m.UnmarshalText([]byte(name + ": " + in + "\n\n"))
		if isID {
			got = m.ID
		} else {
			got = m.Type
		}
		hasErr = false
		// reference: the fields of the first block of the text, last one wins
		decoded, decodedOK = refFirstBlockField(name+": "+in+"\n\n", name)
		if got.IsSet() && multiLine(got.String()) {
			return v.Failf("", "Message.UnmarshalText produced a multi-line %s %q from %q", c.Field, got.String(), in)
		}
		if err != nil {
			// the text holds something UnmarshalText rejects (an invalid retry line inside the
			// value's later lines): the message is then in no documented state; only the
			// invariant above and the wire consequence apply
			v.Class("msg-route-unmarshal-error")
			v.NonTrivial = multiLine(in)
			return wireConsequence(v, c, got)
		}
		if !decodedOK && got.IsSet() {
			return v.Failf("", "Message.UnmarshalText(%q): %s is set to %q although the first event never sets it", name+": "+in+"\n\n", c.Field, got.String())
		}
		if decodedOK && (!got.IsSet() || got.String() != decoded) {
			return v.Failf("", "Message.UnmarshalText(%q): %s = (%q, set=%v), want %q (err %v)", name+": "+in+"\n\n", c.Field, got.String(), got.IsSet(), decoded, err)
		}
		v.NonTrivial = multiLine(in)
		return wireConsequence(v, c, got)
	case "msgtext":
		text := string(build(c.Toks))
		var m sse.Message
		err = m.UnmarshalText([]byte(text))
		for _, f := range []struct {
			name string
			got  field
		}{{"id", m.ID}, {"event", m.Type}} {
			if f.got.IsSet() && multiLine(f.got.String()) {
				return v.Failf("set-multiline", "Message.UnmarshalText(%q) produced a multi-line %s %q", text, f.name, f.got.String())
			}
			if err == nil {
				want, ok := refFirstBlockField(strings.TrimPrefix(text, "\xEF\xBB\xBF"), f.name)
				if f.got.IsSet() != ok || f.got.String() != want {
					return v.Failf("", "Message.UnmarshalText(%q): %s = (%q, set=%v), reference (%q, set=%v)", text, f.name, f.got.String(), f.got.IsSet(), want, ok)
				}
			}
		}
		if err == nil {
			v.Class("msgtext-parsed")
		}
		v.NonTrivial = err == nil && multiLine(text)
		c.Field = "id"
		if r := wireConsequence(v, c, m.ID); r.Fail != "" {
			return r
		}
		c.Field = "type"
		return wireConsequence(v, c, m.Type)
	case "upgrade":
		r := httptest.NewRequest(http.MethodGet, "/", nil)
		if !c.NoHeader {
			var hs []string
			for _, h := range c.Headers {
				hs = append(hs, string(h))
			}
			r.Header["Last-Event-Id"] = hs
		}
		sess, uerr := sse.Upgrade(httptest.NewRecorder(), r)
		if uerr != nil {
			return v.Failf("", "Upgrade failed on a flushing recorder: %v", uerr)
		}
		got = sess.LastEventID
		hasErr = false
		if c.NoHeader || len(c.Headers) == 0 || c.Headers[0] == "" {
			decodedOK = false
		} else {
			decoded = string(c.Headers[0])
		}
		v.Class(fmt.Sprintf("headers:%d", len(c.Headers)))
	}

	// the universal invariant
	if got.IsSet() && multiLine(got.String()) {
		return v.Failf("set-multiline", "route %s/%s with input %q produced a SET value containing a line break: %q", c.Route, c.Field, in, got.String())
	}
	switch {
	case decodedOK && multiLine(decoded):
		if got.IsSet() {
			return v.Failf("", "route %s/%s: multi-line input %q left the value set (%q)", c.Route, c.Field, decoded, got.String())
		}
		if hasErr && err == nil {
			return v.Failf("", "route %s/%s: multi-line input %q was rejected without an error", c.Route, c.Field, decoded)
		}
		v.NonTrivial = c.Route != "new"
		v.Class("multiline-rejected")
	case decodedOK:
		if !got.IsSet() || got.String() != decoded {
			return v.Failf("", "route %s/%s: single-line input %q gave (%q, set=%v, err=%v), want it set and equal", c.Route, c.Field, decoded, got.String(), got.IsSet(), err)
		}
		if hasErr && err != nil {
			return v.Failf("", "route %s/%s: single-line input %q accepted but err=%v", c.Route, c.Field, decoded, err)
		}
		v.Class("single-line-accepted")
	default:
		if got.IsSet() {
			return v.Failf("", "route %s/%s: input that is no value at all left the value set (%q)", c.Route, c.Field, got.String())
		}
		if wantUnsetNoErr && err != nil {
			return v.Failf("", "route %s/%s: null/nil input must give an unset value without error, got %v", c.Route, c.Field, err)
		}
		v.Class("not-a-value")
	}
	return wireConsequence(v, c, got)
}

// refFirstBlockField returns the value the first event of a wire text gives to the named
// field (id or event), per the WHATWG line/field rules; ok=false when the block never sets it.
func refFirstBlockField(text, name string) (value string, ok bool) {
	for _, line := range oracle.SplitLines(text) {
		if line == "" {
			break
		}
		if line[0] == ':' {
			continue
		}
		n, val := line, ""
		if i := strings.IndexByte(line, ':'); i >= 0 {
			n, val = line[:i], strings.TrimPrefix(line[i+1:], " ")
		}
		if n != name {
			continue
		}
		if name == "id" && strings.Contains(val, "\x00") {
			continue
		}
		value, ok = val, true
	}
	return
}

// wireConsequence: a message carrying the resulting field encodes to exactly one event with
// that ID/type and no data (nothing injected).
func wireConsequence(v *stats.Verdict, c C14Case, got field) *stats.Verdict {
	if !got.IsSet() {
		return v
	}
	m := &sse.Message{}
	wantID, wantType := "", ""
	if c.Field == "id" {
		m.ID = got.(sse.EventID)
		if !strings.Contains(got.String(), "\x00") {
			wantID = got.String()
		}
	} else {
		m.Type = got.(sse.EventType)
		wantType = got.String()
	}
	wire := m.String()
	ref := oracle.Interpret([]byte(wire), "", oracle.Read)
	nulID := c.Field == "id" && strings.Contains(got.String(), "\x00")
	if nulID {
		if len(ref.Events) != 0 {
			return v.Failf("injection", "message with NUL id %q encodes to %q which decodes to %d events", got.String(), wire, len(ref.Events))
		}
		return v
	}
	if len(ref.Events) != 1 || ref.UnexpectedEOF || ref.Events[0].LastEventID != wantID || ref.Events[0].Type != wantType || ref.Events[0].Data != "" {
		return v.Failf("injection", "message carrying %s %q (from route %s, input %q) encodes to %q, which decodes to %s - not exactly one event with that %s", c.Field, got.String(), c.Route, c.Input, wire, fmtRef(ref.Events), c.Field)
	}
	return v
}

func TestC14(t *testing.T) {
	stats.Run(t, stats.Prop[C14Case]{ID: "C14", Rule: ruleC14, Gen: genC14, Check: checkC14})
}
