package wire

import (
	"context"
	"fmt"
	"strconv"
	"strings"
	"testing"
	"time"

	sse "github.com/tmaxmax/go-sse"
	"pgregory.net/rapid"

	"verif/harness/oracle"
	"verif/harness/stats"
)

const ruleC19a = "clone families: rapid-generated operation lists (AppendData / AppendComment with hostile strings, set ID / Type / Retry, Clone of any member at any point) applied to a family of messages and to one model per member; after EVERY operation EVERY member's String() must equal the reference encoding of its own model, so a write through a shared backing array shows on the untouched side at once. Non-trivial: a clone was taken from a member that already had chunks and BOTH sides were appended to afterwards."
const ruleC19b = "publishing: one generated message is put 1..6 times through FiniteReplayer / ValidReplayer (both ID modes) and published through a Joe using each of them; the caller's message must encode identically before and after every Put/Publish (ID unset in automatic mode), returned and delivered messages must carry IDs 0,1,2,... and the original payload. Non-trivial: automatic IDs and at least 2 publications. Distinct: FNV-64 of the JSON of the case."

type CloneOp struct {
	Kind   string    `json:"kind"` // data | comment | id | type | retry | clone | unmarshal
	Member int       `json:"member"`
	Texts  []stats.B `json:"texts,omitempty"`
	Value  stats.B   `json:"value,omitempty"`
	Retry  int64     `json:"retry,omitempty"`
}

type C19Case struct {
	Ops []CloneOp `json:"ops"`
}

func genC19(t *rapid.T) C19Case {
	var c C19Case
	n := 2 + stats.Pick(t, 22, "nops")
	for i := 0; i < n; i++ {
		op := CloneOp{Member: stats.Pick(t, 8, "member")}
		switch k := stats.Pct(t, "kind"); {
		case k < 40:
			op.Kind = "data"
		case k < 55:
			op.Kind = "comment"
		case k < 62:
			op.Kind = "id"
		case k < 69:
			op.Kind = "type"
		case k < 73:
			op.Kind = "retry"
		case k < 80:
			op.Kind = "unmarshal"
			op.Value = stats.B(stats.From(t, unmarshalTexts, "utext"))
		default:
			op.Kind = "clone"
		}
		switch op.Kind {
		case "data", "comment":
			nt := 1 + stats.Pick(t, 3, "ntexts")
			for j := 0; j < nt; j++ {
				op.Texts = append(op.Texts, genText.Draw(t, "text"))
			}
		case "id", "type":
			op.Value = stats.B(strings.NewReplacer("\r", "", "\n", "").Replace(string(genText.Draw(t, "value"))))
		case "retry":
			op.Retry = stats.From(t, retryChoices, "retry")
		}
		c.Ops = append(c.Ops, op)
	}
	return c
}

// wire texts for the "unmarshal" operation (UnmarshalText resets the receiver and sets its
// fields and lines from the text) with the model each of them produces
var unmarshalTexts = []string{"data: u1\ndata: u2\n\n", "id: 9\nevent: t\ndata: z\n\n", ": c\n\n", "data: a\n: c\ndata: b\ndata: c\ndata: d\n\n", "retry: 250\ndata: r\n\n"}

func modelOfText(text string) oracle.Msg {
	var m oracle.Msg
	for _, line := range oracle.SplitLines(text) {
		switch {
		case line == "":
			return m
		case strings.HasPrefix(line, "data: "):
			m.Chunks = append(m.Chunks, oracle.Chunk{Text: line[6:]})
		case strings.HasPrefix(line, ": "):
			m.Chunks = append(m.Chunks, oracle.Chunk{Comment: true, Text: line[2:]})
		case strings.HasPrefix(line, "id: "):
			m.IDSet, m.ID = true, line[4:]
		case strings.HasPrefix(line, "event: "):
			m.TypeSet, m.Type = true, line[7:]
		case strings.HasPrefix(line, "retry: "):
			n, _ := strconv.Atoi(line[7:])
			m.Retry = time.Duration(n) * time.Millisecond
		}
	}
	return m
}

func checkC19(t *testing.T, c C19Case) *stats.Verdict {
	v := &stats.Verdict{Size: len(c.Ops)}
	family := []*sse.Message{{}}
	models := []oracle.Msg{{}}
	// for the non-trivial rule
	type pair struct{ src, dst int }
	var clones []pair
	appendedAfter := map[int]int{} // member -> number of appends since the family last changed
	nontrivial := false
	for i, op := range c.Ops {
		k := op.Member % len(family)
		m, mod := family[k], &models[k]
		switch op.Kind {
		case "data", "comment":
			texts := make([]string, len(op.Texts))
			for j, s := range op.Texts {
				texts[j] = string(s)
				mod.Chunks = append(mod.Chunks, oracle.Chunk{Comment: op.Kind == "comment", Text: string(s)})
			}
			if op.Kind == "comment" {
				m.AppendComment(texts...)
			} else {
				m.AppendData(texts...)
			}
			appendedAfter[k]++
			for _, p := range clones {
				if (p.src == k && appendedAfter[p.dst] > 0) || (p.dst == k && appendedAfter[p.src] > 0) {
					nontrivial = true
				}
			}
		case "id":
			if op.Member%2 == 0 {
				m.ID = sse.ID(string(op.Value))
			} else {
				// the same through the text unmarshaler, from a buffer the caller then reuses
				buf := []byte(op.Value)
				if err := m.ID.UnmarshalText(buf); err != nil {
					return v.Failf("", "op %d: EventID.UnmarshalText(%q): %v", i, op.Value, err)
				}
				scribble(buf)
			}
			mod.IDSet, mod.ID = true, string(op.Value)
		case "type":
			if op.Member%2 == 0 {
				m.Type = sse.Type(string(op.Value))
			} else {
				buf := []byte(op.Value)
				if err := m.Type.UnmarshalText(buf); err != nil {
					return v.Failf("", "op %d: EventType.UnmarshalText(%q): %v", i, op.Value, err)
				}
				scribble(buf)
			}
			mod.TypeSet, mod.Type = true, string(op.Value)
		case "retry":
			m.Retry = time.Duration(op.Retry)
			mod.Retry = time.Duration(op.Retry)
		case "unmarshal":
			if err := m.UnmarshalText([]byte(op.Value)); err != nil {
				return v.Failf("", "op %d: UnmarshalText(%q) failed: %v", i, op.Value, err)
			}
			*mod = modelOfText(string(op.Value))
			appendedAfter[k]++
			v.Class("unmarshal-into-family-member")
			for _, p := range clones {
				if p.src == k || p.dst == k {
					nontrivial = true
				}
			}
		case "clone":
			cl := m.Clone()
			cm := *mod
			cm.Chunks = append([]oracle.Chunk(nil), mod.Chunks...)
			family = append(family, cl)
			models = append(models, cm)
			if len(mod.Chunks) > 0 && oracle.Encode(oracle.Msg{Chunks: mod.Chunks}) != "" {
				clones = append(clones, pair{k, len(family) - 1})
				appendedAfter[k], appendedAfter[len(family)-1] = 0, 0
				v.Class("clone-of-nonempty")
			}
		}
		for j := range family {
			if got, want := family[j].String(), oracle.Encode(models[j]); got != want {
				return v.Failf("", "after op %d (%s on member %d) member %d encodes to %q, its own history says %q", i, op.Kind, k, j, got, want)
			}
		}
	}
	v.NonTrivial = nontrivial
	return v
}

func TestC19(t *testing.T) {
	stats.Run(t, stats.Prop[C19Case]{ID: "C19", Rule: ruleC19a, Gen: genC19, Check: checkC19})
}

// ---------------------------------------------------------------------------------------

type C19PubCase struct {
	Msg      MsgCase `json:"msg"`
	Replayer string  `json:"replayer"` // finite | valid
	Auto     bool    `json:"auto"`
	Times    int     `json:"times"`
	ViaJoe   bool    `json:"viajoe"`
	Drain    int     `json:"drain,omitempty"` // valid replayer, direct puts: after this many puts the clock jumps beyond the TTL and GC() runs
}

func genC19Pub(t *rapid.T) C19PubCase {
	c := C19PubCase{Msg: genMsg(true).Draw(t, "msg")}
	c.Replayer = stats.From(t, []string{"finite", "valid"}, "replayer")
	c.Auto = stats.Pct(t, "auto") < 70
	c.Times = 1 + stats.Pick(t, 8, "times")
	if stats.Pct(t, "manytimes") >= 92 {
		c.Times = 95 + stats.Pick(t, 50, "manytimesn") // IDs cross 99/100
	}
	c.ViaJoe = rapid.Bool().Draw(t, "viajoe")
	if c.Replayer == "valid" && !c.ViaJoe && c.Times >= 2 && rapid.Bool().Draw(t, "drained") {
		c.Drain = 1 + stats.Pick(t, c.Times-1, "drain")
	}
	return c
}

type sigReplayer struct {
	sse.Replayer
	replayed chan struct{}
	puts     []*sse.Message
}

func (s *sigReplayer) Replay(sub sse.Subscription) error {
	err := s.Replayer.Replay(sub)
	s.replayed <- struct{}{}
	return err
}

func (s *sigReplayer) Put(m *sse.Message, topics []string) (*sse.Message, error) {
	r, err := s.Replayer.Put(m, topics)
	s.puts = append(s.puts, r)
	return r, err
}

type collectWriter struct {
	got  []string
	msgs []*sse.Message
}

func (c *collectWriter) Send(m *sse.Message) error {
	c.got = append(c.got, m.String())
	c.msgs = append(c.msgs, m)
	return nil
}
func (c *collectWriter) Flush() error { return nil }

func checkC19Pub(t *testing.T, c C19PubCase) *stats.Verdict {
	v := &stats.Verdict{Size: c.Times}
	mc := c.Msg
	if c.Auto {
		mc.ID = nil
	} else if mc.ID == nil || multiLine(string(*mc.ID)) {
		id := stats.B("manual-id")
		mc.ID = &id
	}
	m, mod, f := buildMsg(mc)
	if f != "" {
		return v.Failf("constructor", "%s", f)
	}
	var rep sse.Replayer
	var err error
	var valid *sse.ValidReplayer
	clock := time.Unix(1_700_000_000, 0)
	if c.Replayer == "finite" {
		rep, err = sse.NewFiniteReplayer(3, c.Auto)
	} else {
		vr, verr := sse.NewValidReplayer(time.Hour, c.Auto)
		rep, err = vr, verr
		if verr == nil {
			vr.Now = func() time.Time { return clock }
			valid = vr
		}
	}
	if err != nil {
		return v.Failf("constructor", "replayer: %v", err)
	}
	before := m.String()
	wantWire := func(i int) string {
		w := mod
		if c.Auto {
			w.IDSet, w.ID = true, strconv.Itoa(i)
		}
		return oracle.Encode(w)
	}
	v.Class(fmt.Sprintf("%s/auto=%v/joe=%v", c.Replayer, c.Auto, c.ViaJoe))
	// every message handed out by Put / delivered by Joe is kept and re-encoded after every
	// later publication: a publication must keep its own ID for good
	var handedOut []*sse.Message
	recheck := func(when string) string {
		for i, h := range handedOut {
			if g, w := h.String(), wantWire(i); g != w {
				return fmt.Sprintf("%s: the message of publication #%d now encodes to %q, it was %q", when, i, g, w)
			}
		}
		return ""
	}
	if !c.ViaJoe {
		for i := 0; i < c.Times; i++ {
			got, err := rep.Put(m, []string{"t"})
			if err != nil {
				return v.Failf("", "Put #%d of the same message failed: %v", i, err)
			}
			if after := m.String(); after != before || (c.Auto && m.ID.IsSet()) {
				return v.Failf("", "Put #%d modified the caller's message: %q -> %q (ID set: %v)", i, before, after, m.ID.IsSet())
			}
			if g, w := got.String(), wantWire(i); g != w {
				return v.Failf("", "Put #%d returned %q, want %q", i, g, w)
			}
			handedOut = append(handedOut, got)
			if f := recheck(fmt.Sprintf("after Put #%d", i)); f != "" {
				return v.Failf("", "%s", f)
			}
			if c.Drain > 0 && i+1 == c.Drain && valid != nil {
				// a quiet period longer than the TTL: everything expires and is collected
				clock = clock.Add(2 * time.Hour)
				valid.GC()
				v.Class("valid-replayer-drained-between-publications")
			}
		}
	} else {
		sr := &sigReplayer{Replayer: rep, replayed: make(chan struct{}, 1)}
		joe := &sse.Joe{Replayer: sr}
		cw := &collectWriter{}
		ctx, cancel := context.WithCancel(context.Background())
		done := make(chan error, 1)
		go func() { done <- joe.Subscribe(ctx, sse.Subscription{Client: cw, Topics: []string{"t"}}) }()
		<-sr.replayed // Joe replays and registers in the same loop iteration
		for i := 0; i < c.Times; i++ {
			if err := joe.Publish(m, []string{"t"}); err != nil {
				cancel()
				return v.Failf("", "Publish #%d of the same message failed: %v", i, err)
			}
			if after := m.String(); after != before || (c.Auto && m.ID.IsSet()) {
				cancel()
				return v.Failf("", "Publish #%d modified the caller's message: %q -> %q", i, before, after)
			}
		}
		if err := joe.Shutdown(context.Background()); err != nil {
			cancel()
			return v.Failf("", "Shutdown: %v", err)
		}
		<-done
		cancel()
		if len(cw.got) != c.Times {
			return v.Failf("", "subscriber received %d messages, want %d: %q", len(cw.got), c.Times, cw.got)
		}
		for i, g := range cw.got {
			if w := wantWire(i); g != w {
				return v.Failf("", "delivery #%d is %q, want %q", i, g, w)
			}
		}
		if after := m.String(); after != before {
			return v.Failf("", "caller's message changed: %q -> %q", before, after)
		}
		handedOut = cw.msgs
		if f := recheck("after all publications through Joe"); f != "" {
			return v.Failf("", "%s", f)
		}
	}
	v.NonTrivial = c.Auto && c.Times >= 2
	return v
}

func TestC19Publish(t *testing.T) {
	stats.Run(t, stats.Prop[C19PubCase]{ID: "C19", Rule: ruleC19b, Gen: genC19Pub, Check: checkC19Pub})
}

func FuzzC19(f *testing.F) {
	stats.Fuzz(f, stats.Prop[C19Case]{ID: "C19", Rule: ruleC19a, Gen: genC19, Check: checkC19})
}
