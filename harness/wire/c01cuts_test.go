package wire

import (
	"fmt"
	"testing"

	"pgregory.net/rapid"

	"verif/harness/oracle"
	"verif/harness/stats"
)

const ruleC01Cuts = "exhaustive cut-point pass: for each rapid-generated stream of at most 96 bytes, sse.Read is run once per single cut point (every offset 1..len-1, two reads) and once per pair of adjacent cut points (three reads, the middle one a single byte), with EOF delivered separately and together with the last chunk; every run must equal the reference interpretation. The enumeration over cut points is complete per stream. Non-trivial: the stream has >= 2 lines, yields >= 1 event or ends unterminated, and contains a CR, a BOM or a multi-byte rune (so that some cut lands inside one)."

type C01CutsCase struct {
	Toks []Tok `json:"toks"`
}

func genC01Cuts(t *rapid.T) C01CutsCase {
	return C01CutsCase{Toks: genAnyStream.Draw(t, "stream")}
}

func checkC01Cuts(t *testing.T, c C01CutsCase) *stats.Verdict {
	stream := build(c.Toks)
	v := &stats.Verdict{Size: len(stream)}
	if len(stream) > 96 || len(stream) < 2 || longRetry(stream) {
		v.Count("skipped_too_long_or_short", 1)
		return v
	}
	ref := oracle.Interpret(stream, "", oracle.Read)
	runs := 0
	try := func(p Plan) string {
		runs++
		items, extra, _ := readAll(stream, p, nil, -1, nil)
		if f := checkReadItems(items, extra, ref, -1); f != "" {
			return fmt.Sprintf("sse.Read(%q) plan=%+v: %s\n got  %s\n want %s unexpectedEOF=%v", stream, p, f, fmtItems(items), fmtRef(ref.Events), ref.UnexpectedEOF)
		}
		return ""
	}
	const rest = 1 << 30
	for cut := 1; cut < len(stream); cut++ {
		for _, eofWithData := range []bool{false, true} {
			if f := try(Plan{Sizes: []int{cut, rest}, EOFWithData: eofWithData}); f != "" {
				return v.Failf("", "%s", f)
			}
		}
		if cut+1 < len(stream) {
			if f := try(Plan{Sizes: []int{cut, 1, rest}}); f != "" {
				return v.Failf("", "%s", f)
			}
		}
	}
	v.Count("cut_plans_executed", int64(runs))
	special := false
	for _, b := range stream {
		if b == '\r' || b >= 0x80 {
			special = true
		}
	}
	v.NonTrivial = ref.Lines >= 2 && (len(ref.Events) > 0 || ref.UnexpectedEOF) && special
	return v
}

func TestC01Cuts(t *testing.T) {
	stats.Run(t, stats.Prop[C01CutsCase]{ID: "C01", Rule: ruleC01Cuts, Gen: genC01Cuts, Check: checkC01Cuts})
}
