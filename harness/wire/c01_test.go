package wire

import (
	"bytes"
	"errors"
	"fmt"
	"io"
	"strings"
	"testing"
	"unicode/utf8"

	sse "github.com/tmaxmax/go-sse"
	"pgregory.net/rapid"

	"verif/harness/oracle"
	"verif/harness/stats"
)

const ruleC01 = "rapid-generated streams (token soup of LF/CR/CRLF, field names and look-alikes, colons, spaces, BOM, NUL, multi-byte and invalid UTF-8, digit/sign strings, optional padding run sized around 4096/8192/65536) x read plan (whole | byte-at-a-time | drawn chunk sizes | EOF delivered with the last chunk) x entry point (sse.Read | Connection | Connection resuming with an ID carried over from an earlier attempt) x early-stop position; result compared with the reference WHATWG interpreter (harness/oracle) under go-sse's three adaptations, and with the same stream read in one piece. Non-trivial: the reference dispatches >= 1 event or the stream ends in an unterminated line, AND the plan cuts the stream at least once. Distinct: FNV-64 of the JSON of the case."

type C01Case struct {
	Toks    []Tok   `json:"toks"`
	Plan    Plan    `json:"plan"`
	Entry   string  `json:"entry"` // read | conn | conn-carry
	CarryID stats.B `json:"carryid,omitempty"`
	Stop    int     `json:"stop"` // read: return false from the yield of item #Stop (-1 never)
	Big     bool    `json:"big,omitempty"`
}

func genC01(t *rapid.T) C01Case {
	c := C01Case{Stop: -1}
	c.Toks = genAnyStream.Draw(t, "stream")
	switch p := stats.Pct(t, "pad"); {
	case p < 4:
		c.Toks = insertTok(t, c.Toks, genPad(t, 4096, 8192, 2048))
	case p < 6:
		c.Toks = insertTok(t, c.Toks, genPad(t, 65536, 32768))
		c.Big = true
	}
	c.Plan = genPlan.Draw(t, "plan")
	// The scanner rescans a pending block on every read, so tiny chunks over a large block
	// cost quadratic time: coarsen the plan for padded streams (sizes keep their variety).
	minChunk := 1
	for _, tk := range c.Toks {
		if n := tk.Rep * len(tk.S); n > 16384 {
			minChunk = 512
		} else if n > 1024 && minChunk < 8 {
			minChunk = 8
		}
	}
	for i := range c.Plan.Sizes {
		if c.Plan.Sizes[i] < minChunk {
			c.Plan.Sizes[i] = c.Plan.Sizes[i]*minChunk + i
		}
	}
	switch e := rapid.IntRange(0, 9).Draw(t, "entry"); {
	case e < 6:
		c.Entry = "read"
		if rapid.IntRange(0, 3).Draw(t, "stopearly") == 0 {
			c.Stop = rapid.IntRange(0, 4).Draw(t, "stop")
		}
	case e < 8:
		c.Entry = "conn"
	default:
		c.Entry = "conn-carry"
		c.CarryID = stats.B(rapid.SampledFrom([]string{"7", "", "abc", "x y", "é", "\xff"}).Draw(t, "carry"))
	}
	return c
}

func insertTok(t *rapid.T, toks []Tok, x Tok) []Tok {
	i := rapid.IntRange(0, len(toks)).Draw(t, "padpos")
	out := append([]Tok{}, toks[:i]...)
	out = append(out, x)
	return append(out, toks[i:]...)
}

type item struct {
	ev  sse.Event
	err error
}

// readAll runs sse.Read over the stream with the given plan. stop = index of the item at
// which the consumer returns false (-1: never).
func readAll(stream []byte, plan Plan, cfg *sse.ReadConfig, stop int, endErr error) (items []item, extraCalls int, cr *chunkReader) {
	cr = &chunkReader{Data: stream, Plan: plan, EndErr: endErr}
	stopped := false
	sse.Read(cr, cfg)(func(e sse.Event, err error) bool {
		if stopped {
			extraCalls++
			return false
		}
		items = append(items, item{e, err})
		if len(items)-1 == stop {
			stopped = true
			return false
		}
		return true
	})
	return
}

func sameEvent(a sse.Event, b oracle.Event) bool {
	return a.LastEventID == b.LastEventID && a.Type == b.Type && a.Data == b.Data
}

func fmtRef(evs []oracle.Event) string {
	s := "["
	for _, e := range evs {
		s += fmt.Sprintf("{id=%q type=%q data=%q}", e.LastEventID, e.Type, e.Data)
	}
	return s + "]"
}

func fmtItems(items []item) string {
	s := "["
	for _, it := range items {
		if it.err != nil {
			s += fmt.Sprintf("{ERR %v ev=%+v}", it.err, it.ev)
		} else {
			s += fmt.Sprintf("{id=%q type=%q data=%q}", it.ev.LastEventID, it.ev.Type, it.ev.Data)
		}
	}
	return s + "]"
}

// checkReadItems compares the items yielded by sse.Read with the reference result.
func checkReadItems(items []item, extra int, ref oracle.Result, stop int) string {
	var want []string
	_ = want
	full := len(ref.Events)
	if ref.UnexpectedEOF {
		full++
	}
	wantN := full
	if stop >= 0 && stop+1 < full {
		wantN = stop + 1
	}
	if extra != 0 {
		return fmt.Sprintf("the iterator called yield %d more time(s) after the consumer returned false", extra)
	}
	for i, it := range items {
		if it.err != nil {
			if it.ev != (sse.Event{}) {
				return fmt.Sprintf("item %d carries an event together with an error: %+v / %v", i, it.ev, it.err)
			}
			if i != len(items)-1 {
				return fmt.Sprintf("item %d is an error but %d more item(s) follow", i, len(items)-1-i)
			}
		}
	}
	if len(items) != wantN {
		return fmt.Sprintf("got %d items, want %d", len(items), wantN)
	}
	for i, it := range items {
		if i < len(ref.Events) {
			if it.err != nil {
				return fmt.Sprintf("item %d is error %v, want event %+v", i, it.err, ref.Events[i])
			}
			if !sameEvent(it.ev, ref.Events[i]) {
				return fmt.Sprintf("item %d is {id=%q type=%q data=%q}, want {id=%q type=%q data=%q}", i, it.ev.LastEventID, it.ev.Type, it.ev.Data, ref.Events[i].LastEventID, ref.Events[i].Type, ref.Events[i].Data)
			}
		} else {
			if !errors.Is(it.err, sse.ErrUnexpectedEOF) {
				return fmt.Sprintf("item %d: stream ends in an unterminated line, want ErrUnexpectedEOF, got event=%+v err=%v", i, it.ev, it.err)
			}
		}
	}
	return ""
}

// longRetry reports whether the stream has a retry field whose digit string is longer
// than 18 digits (neither the spec nor the code bound those the same way; DESIGN 6.3).
func longRetry(stream []byte) bool {
	for _, ln := range bytes.FieldsFunc(stream, func(r rune) bool { return r == '\n' || r == '\r' }) {
		if bytes.HasPrefix(ln, []byte("retry")) {
			run := 0
			for _, c := range ln {
				if c >= '0' && c <= '9' {
					run++
					if run > 18 {
						return true
					}
				} else {
					run = 0
				}
			}
		}
	}
	return false
}

func classifyStream(v *stats.Verdict, stream []byte, plan Plan, ref oracle.Result) {
	if i := bytes.Index(stream, []byte("\xEF\xBB\xBF")); i >= 0 {
		if i == 0 {
			v.Class("bom-at-0")
		}
		if bytes.LastIndex(stream, []byte("\xEF\xBB\xBF")) > 0 {
			v.Class("bom-not-at-0")
		}
	}
	for _, c := range plan.Cuts(len(stream)) {
		if stream[c-1] == '\r' {
			v.Class("cr-at-chunk-edge")
			if stream[c] == '\n' {
				v.Class("crlf-split-across-chunks")
			}
		}
		if !utf8.RuneStart(stream[c]) {
			v.Class("cut-inside-multibyte-rune")
		}
	}
	if bytes.Contains(stream, []byte("\x00")) {
		v.Class("nul-byte")
	}
	if len(ref.Retries) > 0 {
		v.Class("retry-accepted")
	}
	if bytes.Contains(stream, []byte("retry")) {
		v.Class("retry-like")
	}
	for _, b := range ref.Blocks {
		if b.End-b.Start >= 4096 {
			v.Class("block>=4KiB")
		}
		if b.End-b.Start >= 65536 {
			v.Class("block>=64KiB")
		}
	}
	if ref.UnexpectedEOF {
		v.Class("ends-unterminated")
	}
	if len(ref.Events) >= 2 {
		v.Class("events>=2")
	}
	if strings.Contains(string(stream), "\r\n") {
		v.Class("has-crlf")
	}
}

func checkC01(t *testing.T, c C01Case) *stats.Verdict {
	stream := build(c.Toks)
	v := &stats.Verdict{Size: len(c.Toks)}
	if longRetry(stream) {
		v.Count("excluded_retry_longer_than_18_digits", 1)
		return v
	}
	v.Class("entry:" + c.Entry)
	cuts := c.Plan.Cuts(len(stream))
	var cfg *sse.ReadConfig
	bufMax := 0
	if c.Big {
		cfg = &sse.ReadConfig{MaxEventSize: 1 << 20}
		bufMax = 1 << 20
	}
	switch c.Entry {
	case "read":
		ref := oracle.Interpret(stream, "", oracle.Read)
		classifyStream(v, stream, c.Plan, ref)
		v.NonTrivial = (len(ref.Events) > 0 || ref.UnexpectedEOF) && len(cuts) > 0
		items, extra, _ := readAll(stream, c.Plan, cfg, c.Stop, nil)
		if c.Stop >= 0 {
			v.Class("early-stop")
		}
		if f := checkReadItems(items, extra, ref, c.Stop); f != "" {
			return v.Failf("", "sse.Read(%q) plan=%+v stop=%d: %s\n got  %s\n want %s unexpectedEOF=%v", stream2s(stream), c.Plan, c.Stop, f, fmtItems(items), fmtRef(ref.Events), ref.UnexpectedEOF)
		}
		// metamorphic: the same stream in one read gives the same items (needs no reference)
		if len(cuts) > 0 {
			whole, _, _ := readAll(stream, Plan{}, cfg, c.Stop, nil)
			if fmtItems(whole) != fmtItems(items) {
				return v.Failf("", "sse.Read(%q): result depends on the read segmentation %+v:\n chunked %s\n whole   %s", stream2s(stream), c.Plan, fmtItems(items), fmtItems(whole))
			}
		}
	default:
		streams := [][]byte{stream}
		initial := ""
		if c.Entry == "conn-carry" {
			initial = string(c.CarryID)
			if strings.IndexByte(initial, 0) >= 0 {
				initial = ""
			}
			streams = [][]byte{[]byte("id: " + initial + "\n\n"), stream}
		}
		ref := oracle.Interpret(stream, initial, oracle.Connection)
		classifyStream(v, stream, c.Plan, ref)
		v.NonTrivial = (len(ref.Events) > 0 || ref.UnexpectedEOF) && len(cuts) > 0
		res := runConn(t, streams, c.Plan, nil, bufMax)
		if res.panicked != nil {
			return v.Failf("panic", "Connection over %q plan=%+v panicked: %v", stream2s(stream), c.Plan, res.panicked)
		}
		got := res.events
		var endErr error
		if c.Entry == "conn-carry" {
			if len(got) == 0 || got[0] != (sse.Event{LastEventID: initial}) {
				return v.Failf("", "carry-over attempt did not deliver the id-only event: %s", fmtEvents(got))
			}
			got = got[1:]
			if len(res.retryErrs) != 2 {
				return v.Failf("", "expected 2 retries in the carry-over script, OnRetry saw %d (final %v)", len(res.retryErrs), res.final)
			}
			endErr = res.retryErrs[1]
			if len(res.lastIDs) < 2 || res.lastIDs[1] != initial {
				return v.Failf("", "second attempt carried Last-Event-ID %q, want %q", res.lastIDs, initial)
			}
		} else {
			endErr = res.final
		}
		if len(got) != len(ref.Events) {
			return v.Failf("", "Connection over %q plan=%+v: got %d events, want %d\n got  %s\n want %s (end %v)", stream2s(stream), c.Plan, len(got), len(ref.Events), fmtEvents(got), fmtRef(ref.Events), endErr)
		}
		for i := range got {
			if !sameEvent(got[i], ref.Events[i]) {
				return v.Failf("", "Connection over %q plan=%+v: event %d differs\n got  %s\n want %s", stream2s(stream), c.Plan, i, fmtEvents(got), fmtRef(ref.Events))
			}
		}
		var ce *sse.ConnectionError
		if !errors.As(endErr, &ce) {
			return v.Failf("", "Connection over %q: end of stream reported as %T %v, want *ConnectionError", stream2s(stream), endErr, endErr)
		}
		if ref.UnexpectedEOF {
			if !errors.Is(endErr, sse.ErrUnexpectedEOF) {
				return v.Failf("", "Connection over %q (unterminated last line): end reported as %v, want ErrUnexpectedEOF", stream2s(stream), endErr)
			}
		} else if !errors.Is(endErr, io.EOF) {
			return v.Failf("", "Connection over %q (clean end): end reported as %v (inner %v), want io.EOF", stream2s(stream), endErr, ce.Err)
		}
	}
	return v
}

func stream2s(b []byte) string {
	if len(b) > 300 {
		return string(b[:140]) + fmt.Sprintf("...(%d bytes)...", len(b)-280) + string(b[len(b)-140:])
	}
	return string(b)
}

func TestC01(t *testing.T) {
	stats.Run(t, stats.Prop[C01Case]{ID: "C01", Rule: ruleC01, Gen: genC01, Check: checkC01})
}

func FuzzC01Rapid(f *testing.F) {
	stats.Fuzz(f, stats.Prop[C01Case]{ID: "C01", Rule: ruleC01, Gen: genC01, Check: checkC01})
}
