package wire

import (
	"bufio"
	"errors"
	"fmt"
	"io"
	"math"
	"strings"
	"testing"

	sse "github.com/tmaxmax/go-sse"
	"pgregory.net/rapid"

	"verif/harness/oracle"
	"verif/harness/stats"
)

const ruleC20 = "rapid-generated limit L (7..64, 4090..4100, default 65536, 70000, and 3% huge: 2^31-1 .. MaxInt with blocks of 1000..100000 bytes) given through ReadConfig.MaxEventSize or Connection.Buffer(buf, L) with cap(buf) <= L, and streams built from blocks (blank lines + event lines + terminator, LF/CR/CRLF) whose total size is drawn around L, 2L, L/2 and 4096 (+-4), plus endless single lines, endless events without a blank line, blank-line-only and comment-only streams; read plans as C01 plus large chunks, through a counting reader. Oracle from the reference interpreter's block table: each block needs a buffer of R = size - (1 if its final terminator is CRLF) + (0 or 1 left-over LF of a preceding CRLF-terminated block) bytes; R <= L for every block => result identical to the reference; otherwise exactly the events of blocks 0..j-1 intact, then bufio.ErrTooLong and nothing else, where j is the first block whose smallest R exceeds L (or an earlier block for which only the left-over byte decides), and at most L bytes were pulled beyond the end of block j-1; an unterminated tail overflows iff it fills the buffer before EOF is seen. Never a panic. Non-trivial: some block is within +-8 bytes of L or of 4096, or an unterminated run >= L exists. Distinct: FNV-64 of the JSON of the case."

type BlockSpec struct {
	Blank   int    `json:"blank,omitempty"` // blank lines before the event
	NL      string `json:"nl"`              // line end used inside this block
	Kind    string `json:"kind"`            // data | multiline | comment | id | unknown | blankonly | noterm
	Size    int    `json:"size"`            // target total size of the block in bytes
	payload string
}

type C20Case struct {
	L       int         `json:"l"` // 0: default limit
	Via     string      `json:"via"`
	BufCap  int         `json:"bufcap,omitempty"` // Connection.Buffer: capacity of the supplied buffer (<= L)
	Blocks  []BlockSpec `json:"blocks"`
	Plan    Plan        `json:"plan"`
	Raw     stats.B     `json:"raw,omitempty"`     // when set, the stream is exactly this (cases found by the native fuzzer)
	CfgKind int         `json:"cfgkind,omitempty"` // default limit (L == 0): 0 nil config | 1 &ReadConfig{} | 2 MaxEventSize: -1 ("By default this limit is 64KB")
}

func (c C20Case) limit() int {
	if c.L == 0 {
		return 65536
	}
	return c.L
}

func genC20(t *rapid.T) C20Case {
	var c C20Case
	switch k := stats.Pct(t, "lkind"); {
	case k < 55:
		c.L = 7 + stats.Pick(t, 58, "lsmall")
	case k < 80:
		c.L = 4090 + stats.Pick(t, 11, "l4k")
	case k < 93:
		c.L = 0
	case k < 97:
		c.L = 70000
	default:
		// limits far beyond anything a stream will reach (and beyond 32 bits): nothing may overflow
		c.L = stats.From(t, []int{1<<31 - 1, 1 << 31, 1<<31 + 70000, 1 << 32, 1<<32 + 1000, 1 << 40, math.MaxInt}, "lhuge")
	}
	L := c.limit()
	if c.L == 0 {
		c.CfgKind = stats.Pick(t, 3, "cfgkind")
	}
	c.Via = stats.From(t, []string{"read", "read", "conn", "connbuf"}, "via")
	if c.L == 0 && c.Via != "read" {
		c.Via = "read" // the default limit is not configurable through Buffer
	}
	huge := L > 1<<20
	if huge && c.Via == "connbuf" {
		c.Via = "conn" // connbuf supplies a buffer of L bytes
	}
	if c.Via == "conn" && huge {
		c.BufCap = stats.From(t, []int{0, 1, 16, 4096, 70000}, "bufcap")
	} else if c.Via == "conn" {
		c.BufCap = min(L, stats.From(t, []int{0, 1, 16, L / 2, L}, "bufcap")) // documented precondition of bufio.Scanner.Buffer: cap(buf) <= max
	}
	n := 1 + stats.Pick(t, 5, "nblocks")
	for i := 0; i < n; i++ {
		b := BlockSpec{NL: stats.From(t, lineEnds, "nl")}
		b.Blank = stats.From(t, []int{0, 0, 1, 2, 5}, "blank")
		b.Kind = stats.From(t, []string{"data", "data", "multiline", "comment", "id", "unknown", "data", "blankonly", "noterm"}, "kind")
		var base int
		switch k := stats.Pct(t, "sizekind"); {
		case k < 35:
			base = 12 + stats.Pick(t, 20, "small")
		case huge:
			base = stats.From(t, []int{1000, 4096, 65536, 70000, 100000}, "hugebase")
		case k < 75:
			base = L
		case k < 82:
			base = 2 * L
		case k < 90:
			base = L / 2
		default:
			base = 4096
		}
		b.Size = base + stats.Pick(t, 13, "delta") - 6
		if b.Size < 1 {
			b.Size = 1
		}
		if b.Size > 150000 {
			b.Size = 150000
		}
		c.Blocks = append(c.Blocks, b)
	}
	c.Plan = genPlan.Draw(t, "plan")
	// large streams: coarse chunks only (quadratic rescans otherwise)
	total := 0
	for _, b := range c.Blocks {
		total += b.Size
	}
	minChunk := 1
	if total > 16384 {
		minChunk = 1024
	} else if total > 1024 {
		minChunk = 16
	}
	for i := range c.Plan.Sizes {
		if c.Plan.Sizes[i] < minChunk {
			c.Plan.Sizes[i] = c.Plan.Sizes[i]*minChunk + i
		}
	}
	return c
}

// render builds a block of (about) the requested size; ok kinds are terminated by a blank line.
func (b BlockSpec) render() string {
	nl := b.NL
	lead := strings.Repeat(nl, b.Blank)
	if b.Kind == "blankonly" {
		n := b.Size / len(nl)
		if n < 1 {
			n = 1
		}
		return strings.Repeat(nl, n)
	}
	prefix := map[string]string{"data": "data: ", "multiline": "data: a" + nl + "data: ", "comment": ": ", "id": "id: 1" + nl + "event: e" + nl + "data: ", "unknown": "unknown: ", "noterm": "data: "}[b.Kind]
	term := nl + nl
	if b.Kind == "noterm" {
		term = ""
	}
	pad := b.Size - len(lead) - len(prefix) - len(term)
	if pad < 1 {
		pad = 1
	}
	return lead + prefix + strings.Repeat("x", pad) + term
}

func checkC20(t *testing.T, c C20Case) *stats.Verdict {
	if c.Raw != "" {
		return checkC20Raw(t, c, []byte(c.Raw))
	}
	var sb strings.Builder
	for _, b := range c.Blocks {
		sb.WriteString(b.render())
	}
	return checkC20Raw(t, c, []byte(sb.String()))
}

// checkC20Raw evaluates the C20 oracle on an explicit stream (used by the native fuzz target too).
func checkC20Raw(t *testing.T, c C20Case, stream []byte) *stats.Verdict {
	v := &stats.Verdict{Size: len(c.Blocks)}
	L := c.limit()
	for i, b := range c.Blocks {
		if b.Kind == "noterm" && i != len(c.Blocks)-1 {
			// an unterminated block in the middle simply merges with the next one
			v.Class("merged-unterminated")
		}
	}
	ref := oracle.Interpret(stream, "", map[string]oracle.Mode{"read": oracle.Read, "conn": oracle.Connection, "connbuf": oracle.Connection}[c.Via])
	v.Class("via:" + c.Via)
	v.Class(fmt.Sprintf("limit:%s", map[bool]string{true: "default", false: "set"}[c.L == 0]))

	// block table -> what may / must happen. For the scanner a block needs a buffer of
	//   R = size - (1 if its final terminator is CRLF: it is emitted at the CR) + leftover
	// bytes, where leftover is 1 when the PREVIOUS block ended in CRLF and was emitted at its CR
	// (that depends on where the reads happened to stop, so it is 0 or 1). A terminated block is
	// delivered iff R <= L; an unterminated tail (no blank line before EOF) only while the buffer
	// never fills, i.e. iff size + leftover < L. Only the leftover byte is left open.
	first := -1 // first block that MUST overflow
	var band []int
	for i, b := range ref.Blocks {
		size := b.End - b.Start
		prevCRLF := 0
		if i > 0 && strings.HasSuffix(string(stream[:b.Start]), "\r\n") {
			prevCRLF = 1
		}
		if abs(size-L) <= 8 || abs(size-4096) <= 8 {
			v.NonTrivial = true
		}
		if !b.Terminated && size >= L {
			v.NonTrivial = true
			v.Class("unterminated-run>=L")
		}
		var rmin, rmax int
		if b.Terminated {
			rmin = size
			if strings.HasSuffix(string(stream[b.Start:b.End]), "\r\n") {
				rmin--
			}
			rmax = rmin + prevCRLF
		} else {
			// an unterminated tail is flushed at EOF; it overflows once the buffer is full before
			// EOF is seen: certainly when size > L, never when size+leftover < L, and at exactly L
			// it depends on whether the reader reports EOF together with the last bytes
			rmin, rmax = size, size+1+prevCRLF
		}
		switch {
		case rmin > L:
			if first < 0 {
				first = i
			}
		case rmax > L:
			if first < 0 {
				band = append(band, i)
			}
		}
	}
	if first >= 0 {
		v.Class("must-overflow")
	} else if len(band) > 0 {
		v.Class("band-only")
		v.Count("lenient_band_blocks", int64(len(band)))
	} else {
		v.Class("all-below-limit")
	}

	// run
	var events []sse.Event
	var endErr error
	var pulled int
	switch c.Via {
	case "read":
		var cfg *sse.ReadConfig
		switch {
		case c.L != 0:
			cfg = &sse.ReadConfig{MaxEventSize: c.L}
		case c.CfgKind == 1:
			cfg = &sse.ReadConfig{}
		case c.CfgKind == 2:
			cfg = &sse.ReadConfig{MaxEventSize: -1}
		}
		items, extra, cr := readAll(stream, c.Plan, cfg, -1, nil)
		if extra != 0 {
			return v.Failf("", "yield called after the consumer stopped")
		}
		for i, it := range items {
			if it.err != nil {
				if i != len(items)-1 || it.ev != (sse.Event{}) {
					return v.Failf("", "error item %d is not last or carries an event: %s", i, fmtItems(items))
				}
				endErr = it.err
			} else {
				events = append(events, it.ev)
			}
		}
		pulled = cr.Pulled
	case "conn", "connbuf":
		var buf []byte
		if c.BufCap > 0 {
			buf = make([]byte, 0, c.BufCap)
		}
		maxSize := c.L
		if c.Via == "connbuf" {
			// bufio's "use only this buffer" idiom: Buffer(make([]byte, 0, L), 0) - the limit is cap(buf)
			buf, maxSize = make([]byte, 0, c.L), 0
		}
		res := runConn(t, [][]byte{stream}, c.Plan, buf, maxSize)
		if res.panicked != nil {
			return v.Failf("panic", "Connection panicked: %v", res.panicked)
		}
		events = res.events
		var ce *sse.ConnectionError
		if !errors.As(res.final, &ce) {
			return v.Failf("", "Connect returned %T %v", res.final, res.final)
		}
		endErr = ce.Err
		if errors.Is(endErr, io.EOF) {
			endErr = nil
		}
		pulled = res.readers[0].Pulled
	}

	desc := func() string {
		var sizes []int
		for _, b := range ref.Blocks {
			sizes = append(sizes, b.End-b.Start)
		}
		return fmt.Sprintf("L=%d via=%s bufcap=%d block sizes=%v plan=%+v stream=%q\n got  %s end=%v pulled=%d\n ref  %s unexpectedEOF=%v", L, c.Via, c.BufCap, sizes, c.Plan, stream2s(stream), fmtEvents(events), endErr, pulled, fmtRef(ref.Events), ref.UnexpectedEOF)
	}

	tooLong := errors.Is(endErr, bufio.ErrTooLong)
	if !tooLong {
		// complete delivery claimed: must be allowed and must equal the reference
		if first >= 0 {
			return v.Failf("", "block %d is larger than the limit but no ErrTooLong was reported: %s", first, desc())
		}
		if len(events) != len(ref.Events) {
			return v.Failf("", "no overflow: got %d events, want %d: %s", len(events), len(ref.Events), desc())
		}
		for i := range events {
			if !sameEvent(events[i], ref.Events[i]) {
				return v.Failf("", "event %d differs from the reference (truncated?): %s", i, desc())
			}
		}
		if ref.UnexpectedEOF != errors.Is(endErr, sse.ErrUnexpectedEOF) || (!ref.UnexpectedEOF && endErr != nil) {
			return v.Failf("", "end condition %v, reference unexpectedEOF=%v: %s", endErr, ref.UnexpectedEOF, desc())
		}
		return v
	}
	v.Class("overflow-reported")
	// ErrTooLong: it must be at an allowed block j; events = exactly those of blocks < j.
	cands := append([]int{}, band...)
	if first >= 0 {
		cands = append(cands, first)
	}
	if len(cands) == 0 {
		return v.Failf("", "every block is smaller than the limit but ErrTooLong was reported: %s", desc())
	}
	okJ := -1
	for _, j := range cands {
		n := 0
		for _, b := range ref.Blocks[:j] {
			if b.Event >= 0 {
				n++
			}
		}
		if n != len(events) {
			continue
		}
		same := true
		for i := range events {
			if !sameEvent(events[i], ref.Events[i]) {
				same = false
			}
		}
		if same {
			okJ = j
		}
	}
	if okJ < 0 {
		return v.Failf("", "ErrTooLong reported, but the delivered events are not exactly the intact events of the blocks before an oversized block (candidates %v): %s", cands, desc())
	}
	bound := L
	if okJ > 0 {
		bound += ref.Blocks[okJ-1].End
	}
	// the largest candidate gives the most lenient bound
	maxJ := cands[len(cands)-1]
	if maxJ > 0 && ref.Blocks[maxJ-1].End+L > bound {
		bound = ref.Blocks[maxJ-1].End + L
	}
	if pulled > bound {
		return v.Failf("", "%d bytes were pulled from the reader before the error, more than the limit beyond the last completed block (bound %d): %s", pulled, bound, desc())
	}
	return v
}

func abs(x int) int {
	if x < 0 {
		return -x
	}
	return x
}

func TestC20(t *testing.T) {
	stats.Run(t, stats.Prop[C20Case]{ID: "C20", Rule: ruleC20, Gen: genC20, Check: checkC20})
}

func FuzzC20Rapid(f *testing.F) {
	stats.Fuzz(f, stats.Prop[C20Case]{ID: "C20", Rule: ruleC20, Gen: genC20, Check: checkC20})
}
