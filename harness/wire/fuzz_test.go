package wire

import (
	"fmt"
	"strings"
	"testing"

	sse "github.com/tmaxmax/go-sse"

	"verif/harness/oracle"
	"verif/harness/stats"
)

// Native (coverage-guided) fuzz targets: the same oracles as the rapid properties, fed with
// raw bytes. They run in the thorough tier only (Go's fuzzer cannot be seeded); a crasher
// found by the fuzzer is the reproducible unit and is reported as the replay file.

var fuzzSeeds = []string{
	// literals from the repository's tests
	"event: sarmale\ndata: doresc sarmale\ndata:  multe sarmale  \n\n",
	"data:test\n\ndata: test\n\n: a comment\n\nid: 5\nretry: 100\n\n",
	"\xEF\xBB\xBFdata: hello\n\n",
	"retry: 1000\n\nretry: 2000\n\n",
	"data: x\r\n\r\ndata: y\r\r",
	"id: 1\n\nid\n\ndata: a\n",
	// hostile constants
	"\n\xEF\xBB\xBFdata: x\n\n", "retry: +1\n\n", "retry: -0\n\n", "data: x\r", "\n", "\n\n: c\n", "data: cut",
	"id: a\x00b\ndata: x\n\n", "data\n\ndata\ndata\n\ndata:", "Data: x\n\ndatax: y\n\n data: z\n\n", "\xff\xfe\r\n\r\n", ":\n:\n\n",
}

func decodeFuzz(in []byte) (stream []byte, plan Plan, stop int) {
	stop = -1
	if len(in) < 2 {
		return in, Plan{}, -1
	}
	ctl, ctl2 := in[0], in[1]
	stream = in[2:]
	switch ctl % 5 {
	case 1:
		plan.Sizes = []int{1}
	case 2:
		plan.Sizes = []int{1 + int(ctl2%7)}
	case 3:
		plan.Sizes = []int{1 + int(ctl2%3), 1 + int(ctl2/3%5), 1 + int(ctl2/15%9)}
	case 4:
		plan.Sizes = []int{4096}
	}
	plan.EOFWithData = ctl&0x40 != 0
	if ctl&0x80 != 0 {
		stop = int(ctl2 % 4)
	}
	return
}

func FuzzReadDifferential(f *testing.F) {
	for i, s := range fuzzSeeds {
		f.Add(append([]byte{byte(i), byte(i * 7)}, s...))
	}
	f.Fuzz(func(t *testing.T, in []byte) {
		stream, plan, stop := decodeFuzz(in)
		if longRetry(stream) || len(stream) > 60000 {
			return
		}
		ref := oracle.Interpret(stream, "", oracle.Read)
		items, extra, _ := readAll(stream, plan, nil, stop, nil)
		if msg := checkReadItems(items, extra, ref, stop); msg != "" {
			c := C01Case{Toks: []Tok{{S: stats.B(stream)}}, Plan: plan, Entry: "read", Stop: stop}
			full := fmt.Sprintf("sse.Read(%q) plan=%+v stop=%d: %s\n got  %s\n want %s unexpectedEOF=%v", stream2s(stream), plan, stop, msg, fmtItems(items), fmtRef(ref.Events), ref.UnexpectedEOF)
			stats.WriteFailure("C01", c, "", full)
			t.Fatal(full)
		}
	})
}

func FuzzReadBounded(f *testing.F) {
	for i, s := range fuzzSeeds {
		f.Add(byte(7+i), append([]byte{byte(i), 0}, s...))
	}
	f.Add(byte(16), []byte("\x01\x00data: xxxxxxxx\n\ndata: y\n\n"))
	f.Fuzz(func(t *testing.T, lim byte, in []byte) {
		stream, plan, _ := decodeFuzz(in)
		if longRetry(stream) || len(stream) > 20000 {
			return
		}
		L := 7 + int(lim)%120
		// express the stream as one literal block so that the C20 oracle can be reused
		c := C20Case{L: L, Via: "read", Plan: plan, Raw: stats.B(stream)}
		v := checkC20Raw(t, c, stream)
		if v.Fail != "" {
			stats.WriteFailure("C20", c, "", v.Fail)
			t.Fatal(v.Fail)
		}
	})
}

func FuzzEncodeDecode(f *testing.F) {
	f.Add("hello", "a\nb", "id", "t", int64(0))
	f.Add("a\r\nb\r", ": c", "1\n", "", int64(1500000000))
	f.Add("data: x", "id: 1", "a\x00", "event", int64(-5))
	f.Fuzz(func(t *testing.T, d1, d2, id, typ string, retry int64) {
		mc := MsgCase{Ops: []MsgOp{{Texts: []stats.B{stats.B(d1)}}, {Comment: true, Texts: []stats.B{stats.B(d2)}}, {Texts: []stats.B{stats.B(d2), stats.B(d1)}}}, RetryNs: retry}
		bid, btyp := stats.B(id), stats.B(typ)
		if len(id)%3 != 0 {
			mc.ID = &bid
		}
		if len(typ)%2 == 1 {
			mc.Type = &btyp
		}
		c := C02Case{Msgs: []MsgCase{mc, mc}}
		if v := checkC02(t, c); v.Fail != "" {
			stats.WriteFailure("C02", c, "", v.Fail)
			t.Fatal(v.Fail)
		}
	})
}

func FuzzFieldRoutes(f *testing.F) {
	for _, s := range []string{"abc", "a\nb", "\r", "x\r\n", "", "\"a\\nb\"", "null", "id: 1\ndata: x"} {
		f.Add(byte(0), s)
		f.Add(byte(3), s)
		f.Add(byte(5), s)
	}
	routes := []string{"new", "must", "text", "json", "scan", "msg", "upgrade"}
	f.Fuzz(func(t *testing.T, ctl byte, in string) {
		c := C14Case{Route: routes[int(ctl)%len(routes)], Field: []string{"id", "type"}[int(ctl>>3)%2], Input: stats.B(in), JSONStyle: int(ctl>>4) % 9, ScanKind: int(ctl>>4) % 7, PrevSet: ctl&0x80 != 0}
		if c.Route == "upgrade" {
			c.Field = "id"
			c.Headers = []stats.B{stats.B(in)}
		}
		if strings.ContainsRune(in, 0xFFFD) && c.Route == "json" {
			return // encoding/json replaces invalid UTF-8; the reference document would differ
		}
		if v := checkC14(t, c); v.Fail != "" {
			stats.WriteFailure("C14", c, "", v.Fail)
			t.Fatal(v.Fail)
		}
	})
}

var _ = sse.ErrUnexpectedEOF
