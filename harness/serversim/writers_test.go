package serversim

import (
	"errors"
	"fmt"
	"net"
	"net/http"
	"strings"
	"testing"

	"verif/harness/stats"
)

func TestMain(m *testing.M) { stats.Main(m) }

var (
	errWrite = errors.New("harness: injected write failure")
	errFlush = errors.New("harness: injected flush failure")
	// what a real connection reports when a write deadline (http.Server.WriteTimeout,
	// ResponseController.SetWriteDeadline) has passed: a net.Error with Timeout() true
	errWriteTimeout error = timeoutErr("harness: injected write failure: i/o timeout")
	errFlushTimeout error = timeoutErr("harness: injected flush failure: i/o timeout")
)

type timeoutErr string

func (e timeoutErr) Error() string   { return string(e) }
func (e timeoutErr) Timeout() bool   { return true }
func (e timeoutErr) Temporary() bool { return true }

var _ net.Error = timeoutErr("")

const sseCT = "text/event-stream"

// core is the recording, fault-injecting bottom of every writer shape.
type core struct {
	h               http.Header
	log             []string
	body            strings.Builder
	flushedLen      int // body length covered by the last successful flush
	writes          int
	flushes         int // flush attempts
	failWrite       int // index of the failing Write (-1 none)
	acceptPct       int // share of the failing Write's bytes accepted
	failFlush       int // index of the failing flush attempt (-1 none); only shapes with FlushError
	canFailFlush    bool
	status          int
	opErr           error // first underlying error during the current operation
	headerFlushedOK bool  // a flush succeeded while Content-Type was text/event-stream
	violations      []string
	tampered        bool
	timeoutErrs     bool // injected failures are net.Errors with Timeout() true
}

func (c *core) writeErr() error {
	if c.timeoutErrs {
		return errWriteTimeout
	}
	return errWrite
}

func (c *core) flushErr() error {
	if c.timeoutErrs {
		return errFlushTimeout
	}
	return errFlush
}

func newCore(failWrite, acceptPct, failFlush int) *core {
	return &core{h: http.Header{}, failWrite: failWrite, acceptPct: acceptPct, failFlush: failFlush}
}

func (c *core) Header() http.Header { c.log = append(c.log, "Header()"); return c.h }

func (c *core) WriteHeader(code int) {
	c.log = append(c.log, fmt.Sprintf("WriteHeader(%d)", code))
	if c.status == 0 {
		c.status = code
	}
}

func (c *core) ct() string {
	if v := c.h["Content-Type"]; len(v) > 0 {
		return v[0]
	}
	return ""
}

func (c *core) Write(p []byte) (int, error) {
	i := c.writes
	c.writes++
	if c.status == 0 {
		c.status = 200
	}
	if i == c.failWrite {
		n := len(p) * c.acceptPct / 100
		if n >= len(p) && len(p) > 0 {
			n = len(p) - 1
		}
		c.body.Write(p[:n])
		c.log = append(c.log, fmt.Sprintf("Write(%d)->%d,ERR", len(p), n))
		if c.opErr == nil {
			c.opErr = c.writeErr()
		}
		return n, c.writeErr()
	}
	c.body.Write(p)
	c.log = append(c.log, fmt.Sprintf("Write(%d)", len(p)))
	return len(p), nil
}

func (c *core) flush() error {
	i := c.flushes
	c.flushes++
	if c.canFailFlush && i == c.failFlush {
		c.log = append(c.log, "Flush->ERR")
		if c.opErr == nil {
			c.opErr = c.flushErr()
		}
		return c.flushErr()
	}
	c.log = append(c.log, fmt.Sprintf("Flush(ct=%q)", c.ct()))
	if c.status == 0 {
		c.status = 200
	}
	c.flushedLen = c.body.Len()
	if c.ct() == sseCT && !c.headerFlushedOK {
		c.headerFlushedOK = true
	}
	return nil
}

// Writer shapes -------------------------------------------------------------------------

type wNone struct{ *core }

type wFlusher struct{ *core }

func (w wFlusher) Flush() { _ = w.core.flush() }

type wFlushErr struct{ *core }

func (w wFlushErr) FlushError() error { return w.core.flush() }

type wBoth struct{ *core }

func (w wBoth) Flush() {
	w.core.log = append(w.core.log, "plain Flush() used although FlushError exists")
	_ = w.core.flush()
}
func (w wBoth) FlushError() error { return w.core.flush() }

// wWrap hides everything but the basic interface and Unwrap.
type wWrap struct{ inner http.ResponseWriter }

func (w wWrap) Header() http.Header         { return w.inner.Header() }
func (w wWrap) Write(p []byte) (int, error) { return w.inner.Write(p) }
func (w wWrap) WriteHeader(c int)           { w.inner.WriteHeader(c) }
func (w wWrap) Unwrap() http.ResponseWriter { return w.inner }

// wWrapU is a middleware-style wrapper VALUE with an uncomparable field (two interface values
// holding it must never be compared with ==).
type wWrapU struct {
	inner http.ResponseWriter
	tags  []string
}

func (w wWrapU) Header() http.Header         { return w.inner.Header() }
func (w wWrapU) Write(p []byte) (int, error) { return w.inner.Write(p) }
func (w wWrapU) WriteHeader(c int)           { w.inner.WriteHeader(c) }
func (w wWrapU) Unwrap() http.ResponseWriter { return w.inner }

// Shape: base in {none, flusher, flusherr, both}, wrapped Depth times.
type Shape struct {
	Base         string `json:"base"`
	Depth        int    `json:"depth,omitempty"`
	Uncomparable bool   `json:"uncomparable,omitempty"` // the wrappers are values with a slice field
}

func (s Shape) canFlush() bool     { return s.Base != "none" }
func (s Shape) canFailFlush() bool { return s.Base == "flusherr" || s.Base == "both" }

func (s Shape) build(c *core) http.ResponseWriter {
	c.canFailFlush = s.canFailFlush()
	var w http.ResponseWriter
	switch s.Base {
	case "none":
		w = wNone{c}
	case "flusher":
		w = wFlusher{c}
	case "flusherr":
		w = wFlushErr{c}
	default:
		w = wBoth{c}
	}
	for i := 0; i < s.Depth; i++ {
		if s.Uncomparable {
			w = wWrapU{inner: w, tags: []string{"mw"}}
		} else {
			w = wWrap{w}
		}
	}
	return w
}
