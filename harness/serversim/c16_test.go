package serversim

import (
	"bytes"
	"context"
	"errors"
	"fmt"
	"log/slog"
	"net/http"
	"net/http/httptest"
	"strconv"
	"strings"
	"testing"

	sse "github.com/tmaxmax/go-sse"
	"pgregory.net/rapid"

	"verif/harness/oracle"
	"verif/harness/stats"
)

const ruleC16a = "Session: rapid-generated writer shape (Flusher | FlushError | both | none, wrapped 0..3 times behind Unwrap) x 1..8 operations Send(message)/Flush (12% of the messages carry a data line of 512..70000 bytes) x fault plan (k-th underlying Write fails after accepting a prefix; j-th underlying flush fails where the shape can report it; 35% of the failures are net.Errors with Timeout() true, as an expired write deadline gives); an ordered log of Header/Write/flush calls is checked: upgrade refused iff no flushing writer is reachable; no body byte before a successful flush with Content-Type text/event-stream in the header; the header is not re-assigned after that (a tampered value must survive); body == concatenation of the reference encodings (a prefix for the failing Send); Flush()==nil implies every byte written is covered by a successful flush; every operation returns exactly the first underlying error it caused, else nil. Non-trivial: >= 2 Sends with a Flush between them and a fault at an operation index >= 1."
const ruleC16b = "Server: rapid-generated Last-Event-Id header values (absent, empty, valid, with CR/LF, several values) x OnSession (nil | accept with 0..3 topics | reject after writing a status/body or nothing) x provider stub (records the Subscription, sends 0..3 messages through it, returns nil or an error before/after sending) x writer shape x Server.Logger (unset | returning nil | a real slog logger); Subscription fields, rejection silence and the 500 answers are checked against the statement. Non-trivial: the header value is non-trivial (present, not a plain token) and OnSession is set. Distinct: FNV-64 of the JSON of the case."

type SessOp struct {
	Send bool     `json:"send"`
	Msg  *MsgSpec `json:"msg,omitempty"`
}

type MsgSpec struct {
	ID   string   `json:"id,omitempty"`
	Type string   `json:"type,omitempty"`
	Data []string `json:"data,omitempty"`
	Cmt  []string `json:"cmt,omitempty"`
	Long int      `json:"long,omitempty"` // a further data line of this many bytes (beyond any buffer a writer path may use)
}

func (m MsgSpec) build() (*sse.Message, oracle.Msg) {
	msg := &sse.Message{}
	var mod oracle.Msg
	if m.ID != "" {
		msg.ID = sse.ID(m.ID)
		mod.IDSet, mod.ID = true, m.ID
	}
	if m.Type != "" {
		msg.Type = sse.Type(m.Type)
		mod.TypeSet, mod.Type = true, m.Type
	}
	for _, d := range m.Data {
		msg.AppendData(d)
		mod.Chunks = append(mod.Chunks, oracle.Chunk{Text: d})
	}
	if m.Long > 0 {
		d := strings.Repeat("y", m.Long)
		msg.AppendData(d)
		mod.Chunks = append(mod.Chunks, oracle.Chunk{Text: d})
	}
	for _, c := range m.Cmt {
		msg.AppendComment(c)
		mod.Chunks = append(mod.Chunks, oracle.Chunk{Comment: true, Text: c})
	}
	return msg, mod
}

var genMsgSpec = rapid.Custom(func(t *rapid.T) MsgSpec {
	var m MsgSpec
	if rapid.Bool().Draw(t, "hasid") {
		m.ID = stats.From(t, []string{"1", "42", "abc"}, "id")
	}
	if stats.Pct(t, "hastype") < 30 {
		m.Type = stats.From(t, []string{"t", "update"}, "type")
	}
	nd := stats.Pick(t, 3, "ndata")
	for i := 0; i < nd; i++ {
		m.Data = append(m.Data, stats.From(t, []string{"x", "hello\nworld", "a\r\nb", "", "line"}, "data"))
	}
	if stats.Pct(t, "hascmt") < 25 {
		m.Cmt = []string{"c"}
	}
	if stats.Pct(t, "haslong") >= 88 {
		m.Long = stats.From(t, []int{512, 4000, 4089, 4090, 4095, 4096, 4097, 5000, 8192, 20000, 70000}, "long")
	}
	return m
})

type C16Case struct {
	Shape     Shape    `json:"shape"`
	Ops       []SessOp `json:"ops"`
	FailWrite int      `json:"failwrite"`
	AcceptPct int      `json:"acceptpct"`
	FailFlush int      `json:"failflush"`
	Timeouts  bool     `json:"timeouts,omitempty"` // the injected failures are net.Errors with Timeout() true (an expired write deadline)
}

var genShape = rapid.Custom(func(t *rapid.T) Shape {
	return Shape{Base: stats.From(t, []string{"flusher", "flusherr", "both", "flusherr", "none"}, "base"), Depth: stats.From(t, []int{0, 0, 1, 2, 3}, "depth"), Uncomparable: stats.Pct(t, "uncomparable") >= 70}
})

func genC16(t *rapid.T) C16Case {
	c := C16Case{Shape: genShape.Draw(t, "shape"), FailWrite: -1, FailFlush: -1}
	n := 1 + stats.Pick(t, 8, "nops")
	for i := 0; i < n; i++ {
		if stats.Pct(t, "issend") < 60 {
			m := genMsgSpec.Draw(t, "msg")
			c.Ops = append(c.Ops, SessOp{Send: true, Msg: &m})
		} else {
			c.Ops = append(c.Ops, SessOp{})
		}
	}
	switch stats.Pick(t, 4, "fault") {
	case 0:
	case 1:
		c.FailWrite = stats.Pick(t, 14, "failwrite")
		c.AcceptPct = stats.Pct(t, "accept")
	case 2:
		c.FailFlush = stats.Pick(t, 6, "failflush")
	default:
		c.FailWrite = stats.Pick(t, 14, "failwrite")
		c.AcceptPct = stats.Pct(t, "accept")
		c.FailFlush = stats.Pick(t, 6, "failflush")
	}
	c.Timeouts = (c.FailWrite >= 0 || c.FailFlush >= 0) && stats.Pct(t, "timeouts") < 35
	return c
}

func checkC16(t *testing.T, c C16Case) *stats.Verdict {
	v := &stats.Verdict{Size: len(c.Ops)}
	co := newCore(c.FailWrite, c.AcceptPct, c.FailFlush)
	co.timeoutErrs = c.Timeouts
	w := c.Shape.build(co)
	v.Class(fmt.Sprintf("shape:%s/depth%d", c.Shape.Base, c.Shape.Depth))
	sess, err := sse.Upgrade(w, httptest.NewRequest(http.MethodGet, "/", nil))
	if !c.Shape.canFlush() {
		if !errors.Is(err, sse.ErrUpgradeUnsupported) || sess != nil {
			return v.Failf("", "Upgrade on a writer that cannot flush returned (%v, %v), want ErrUpgradeUnsupported", sess, err)
		}
		if len(co.log) != 0 {
			return v.Failf("", "Upgrade touched an unsupported writer: %v", co.log)
		}
		return v
	}
	if err != nil {
		return v.Failf("", "Upgrade refused a writer that can flush (%+v): %v", c.Shape, err)
	}
	var wantBody strings.Builder
	sends, flushBetween, faultAtLater := 0, false, false
	sawFlushAfterSend := false
	for i, op := range c.Ops {
		co.opErr = nil
		logStart := len(co.log)
		bodyBefore := co.body.Len()
		var got error
		var enc string
		if op.Send {
			msg, mod := op.Msg.build()
			enc = oracle.Encode(mod)
			got = sess.Send(msg)
			sends++
			if sawFlushAfterSend {
				flushBetween = true
			}
		} else {
			got = sess.Flush()
			if sends > 0 {
				sawFlushAfterSend = true
			}
		}
		opLog := co.log[logStart:]
		what := fmt.Sprintf("op %d (%s) calls=%v", i, map[bool]string{true: "Send", false: "Flush"}[op.Send], opLog)
		// exactly the first underlying error, else nil
		if got != co.opErr { //nolint:errorlint // identity is the claim
			return v.Failf("", "%s returned %v, the underlying writer's first error in this operation was %v (full log %v)", what, got, co.opErr, co.log)
		}
		if co.opErr != nil && i >= 1 {
			faultAtLater = true
		}
		// no body byte before "header set + successful flush"
		written := co.body.Len() - bodyBefore
		wroteSomething := false
		for _, l := range opLog {
			if strings.HasPrefix(l, "Write(") {
				wroteSomething = true
			}
		}
		if wroteSomething && !headerFlushedBeforeFirstWrite(co.log) {
			return v.Failf("", "%s: a body Write happened before a successful flush with Content-Type %s (log %v)", what, sseCT, co.log)
		}
		if op.Send {
			if got == nil {
				if written != len(enc) {
					return v.Failf("", "%s: Send succeeded but wrote %d of %d bytes", what, written, len(enc))
				}
			} else if written > len(enc) {
				return v.Failf("", "%s: wrote more than the message's encoding", what)
			}
			wantBody.WriteString(enc[:written])
		} else {
			if written != 0 {
				return v.Failf("", "%s: Flush wrote %d body bytes", what, written)
			}
			if got == nil && co.flushedLen != co.body.Len() {
				return v.Failf("", "%s returned nil but %d of %d body bytes are not covered by a successful underlying flush (log %v)", what, co.body.Len()-co.flushedLen, co.body.Len(), co.log)
			}
		}
		if co.body.String() != wantBody.String() {
			return v.Failf("", "%s: body is %s, want %s", what, abbrev(co.body.String()), abbrev(wantBody.String()))
		}
		// once the upgrade flush succeeded the header must not be assigned again: tamper and watch
		if co.headerFlushedOK {
			if !co.tampered {
				co.h["Content-Type"] = []string{"tampered-by-harness"}
				co.tampered = true
			} else if co.ct() != "tampered-by-harness" {
				return v.Failf("", "%s: Content-Type was assigned again after the upgrade had been flushed (now %q, log %v)", what, co.ct(), co.log)
			}
		}
		if co.opErr == nil && (op.Send || true) && !co.headerFlushedOK {
			return v.Failf("", "%s succeeded but the Content-Type header has not been set and flushed (log %v)", what, co.log)
		}
	}
	for _, l := range co.log {
		if strings.HasPrefix(l, "plain Flush()") {
			return v.Failf("", "FlushError exists on the writer but plain Flush was used (errors would be lost): %v", co.log)
		}
	}
	v.NonTrivial = sends >= 2 && flushBetween && faultAtLater
	if co.opErr != nil || faultAtLater {
		v.Class("fault-hit")
	}
	return v
}

// headerFlushedBeforeFirstWrite: the first Write in the log is preceded by a successful
// flush that saw Content-Type: text/event-stream.
func headerFlushedBeforeFirstWrite(log []string) bool {
	ok := false
	for _, l := range log {
		if l == fmt.Sprintf("Flush(ct=%q)", sseCT) {
			ok = true
		}
		if strings.HasPrefix(l, "Write(") {
			return ok
		}
	}
	return true
}

func TestC16(t *testing.T) {
	stats.Run(t, stats.Prop[C16Case]{ID: "C16", Rule: ruleC16a, Gen: genC16, Check: checkC16})
}

// ---------------------------------------------------------------------------------------
// Server.ServeHTTP
// ---------------------------------------------------------------------------------------

type C16SrvCase struct {
	Shape           Shape     `json:"shape"`
	Headers         []stats.B `json:"headers"` // nil: header absent
	HasHeader       bool      `json:"hasheader"`
	OnSession       string    `json:"onsession"` // nil | accept | reject-silent | reject-status
	Topics          []string  `json:"topics,omitempty"`
	EmptySlice      bool      `json:"emptyslice,omitempty"` // no topics: OnSession returns []string{} instead of nil
	ProvSend        int       `json:"provsend"`
	ProvErr         string    `json:"proverr"` // none | before | after
	CancelFirst     bool      `json:"cancelfirst,omitempty"`
	FirstFlushFails bool      `json:"firstflushfails,omitempty"` // the writer's very first flush fails (shapes that can report it)
	Timeouts        bool      `json:"timeouts,omitempty"`        // the failing flush reports a net.Error with Timeout() true
	Logger          string    `json:"logger,omitempty"`          // "" no Logger | nil: Logger returns nil | slog: Logger returns a real logger (writing to a buffer of its own)
}

func genC16Srv(t *rapid.T) C16SrvCase {
	c := C16SrvCase{Shape: genShape.Draw(t, "shape")}
	switch stats.Pick(t, 6, "hdr") {
	case 0:
	case 1:
		c.HasHeader, c.Headers = true, []stats.B{""}
	case 2:
		c.HasHeader, c.Headers = true, []stats.B{stats.B(stats.From(t, []string{"5", "abc", "x y", " 7 ", "é"}, "hv"))}
	case 3:
		c.HasHeader, c.Headers = true, []stats.B{stats.B(stats.From(t, []string{"a\nb", "\n", "1\r\ndata: x", "7\r"}, "hv"))}
	case 4:
		c.HasHeader, c.Headers = true, []stats.B{stats.B(stats.From(t, []string{"1", "", "a\nb"}, "hv1")), stats.B(stats.From(t, []string{"2", "", "z"}, "hv2"))}
	default:
		c.HasHeader, c.Headers = true, nil
	}
	c.OnSession = stats.From(t, []string{"nil", "accept", "accept", "reject-silent", "reject-status"}, "onsession")
	nt := stats.Pick(t, 4, "ntopics")
	for i := 0; i < nt; i++ {
		c.Topics = append(c.Topics, stats.From(t, []string{"", "a", "b", "news"}, "topic"))
	}
	if nt == 0 {
		c.EmptySlice = rapid.Bool().Draw(t, "emptyslice")
	}
	c.ProvSend = stats.Pick(t, 4, "provsend")
	c.ProvErr = stats.From(t, []string{"none", "none", "before", "after"}, "proverr")
	c.FirstFlushFails = stats.Pct(t, "firstflushfails") >= 80
	c.Timeouts = c.FirstFlushFails && stats.Pct(t, "timeouts") < 35
	c.Logger = stats.From(t, []string{"", "", "", "nil", "slog", "slog"}, "logger")
	return c
}

type stubProvider struct {
	calls   int
	sub     sse.Subscription
	ctx     context.Context
	send    int
	errMode string
	sendErr error
}

var errProvider = errors.New("harness: provider refuses")

func (p *stubProvider) Subscribe(ctx context.Context, sub sse.Subscription) error {
	p.calls++
	p.sub, p.ctx = sub, ctx
	if p.errMode == "before" {
		return errProvider
	}
	for i := 0; i < p.send; i++ {
		m := &sse.Message{}
		m.AppendData(fmt.Sprintf("m%d", i))
		if err := sub.Client.Send(m); err != nil {
			p.sendErr = err
			return err
		}
		if err := sub.Client.Flush(); err != nil {
			p.sendErr = err
			return err
		}
	}
	if p.errMode == "after" {
		return errProvider
	}
	return nil
}
func (p *stubProvider) Publish(*sse.Message, []string) error { return nil }
func (p *stubProvider) Shutdown(context.Context) error       { return nil }

func checkC16Srv(t *testing.T, c C16SrvCase) *stats.Verdict {
	v := &stats.Verdict{}
	co := newCore(-1, 0, -1)
	if c.FirstFlushFails && c.Shape.canFailFlush() {
		co.failFlush = 0
	}
	co.timeoutErrs = c.Timeouts
	w := c.Shape.build(co)
	req := httptest.NewRequest(http.MethodGet, "/events", nil)
	if c.HasHeader {
		hs := []string{}
		for _, h := range c.Headers {
			hs = append(hs, string(h))
		}
		req.Header["Last-Event-Id"] = hs
	}
	prov := &stubProvider{send: c.ProvSend, errMode: c.ProvErr}
	srv := &sse.Server{Provider: prov}
	var logBuf bytes.Buffer
	switch c.Logger {
	case "nil":
		srv.Logger = func(*http.Request) *slog.Logger { return nil }
	case "slog":
		lg := slog.New(slog.NewTextHandler(&logBuf, &slog.HandlerOptions{Level: slog.LevelDebug}))
		srv.Logger = func(*http.Request) *slog.Logger { return lg }
	}
	v.Class("logger:" + c.Logger)
	onSessionCalls := 0
	var onSessionLogLen int
	switch c.OnSession {
	case "accept":
		srv.OnSession = func(w http.ResponseWriter, r *http.Request) ([]string, bool) {
			onSessionCalls++
			if len(c.Topics) == 0 && c.EmptySlice {
				return make([]string, 0, 4), true
			}
			return c.Topics, true
		}
	case "reject-silent":
		srv.OnSession = func(w http.ResponseWriter, r *http.Request) ([]string, bool) {
			onSessionCalls++
			onSessionLogLen = len(co.log)
			return c.Topics, false
		}
	case "reject-status":
		srv.OnSession = func(w http.ResponseWriter, r *http.Request) ([]string, bool) {
			onSessionCalls++
			w.WriteHeader(http.StatusForbidden)
			_, _ = w.Write([]byte("go away"))
			onSessionLogLen = len(co.log)
			return nil, false
		}
	}
	v.Class("onsession:" + c.OnSession)
	v.Class("proverr:" + c.ProvErr)
	srv.ServeHTTP(w, req)

	desc := fmt.Sprintf("case %+v log=%v body=%q status=%d", c, co.log, co.body.String(), co.status)
	if !c.Shape.canFlush() {
		v.Class("unsupported-writer")
		if prov.calls != 0 {
			return v.Failf("", "writer cannot flush but the provider was subscribed: %s", desc)
		}
		if co.status != http.StatusInternalServerError {
			return v.Failf("", "writer cannot flush: status %d, want 500: %s", co.status, desc)
		}
		return v
	}
	rejected := strings.HasPrefix(c.OnSession, "reject")
	if rejected {
		if prov.calls != 0 {
			return v.Failf("", "OnSession rejected the request but Subscribe was called: %s", desc)
		}
		if len(co.log) != onSessionLogLen {
			return v.Failf("", "OnSession rejected the request but the server wrote on its own afterwards (%v): %s", co.log[onSessionLogLen:], desc)
		}
		if c.OnSession == "reject-silent" && (co.body.Len() != 0 || co.status != 0) {
			return v.Failf("", "silent rejection but something was written: %s", desc)
		}
		return v
	}
	if prov.calls != 1 {
		return v.Failf("", "Subscribe called %d times, want 1: %s", prov.calls, desc)
	}
	if c.OnSession != "nil" && onSessionCalls != 1 {
		return v.Failf("", "OnSession called %d times: %s", onSessionCalls, desc)
	}
	// LastEventID
	wantSet, wantID := false, ""
	if c.HasHeader && len(c.Headers) > 0 && c.Headers[0] != "" && !strings.ContainsAny(string(c.Headers[0]), "\r\n") {
		wantSet, wantID = true, string(c.Headers[0])
	}
	if prov.sub.LastEventID.IsSet() != wantSet || prov.sub.LastEventID.String() != wantID {
		return v.Failf("", "Subscription.LastEventID = (%q, set=%v), want (%q, set=%v): %s", prov.sub.LastEventID.String(), prov.sub.LastEventID.IsSet(), wantID, wantSet, desc)
	}
	// Topics
	wantTopics := []string{sse.DefaultTopic}
	if c.OnSession == "accept" && len(c.Topics) > 0 {
		wantTopics = c.Topics
	}
	if fmt.Sprintf("%q", prov.sub.Topics) != fmt.Sprintf("%q", wantTopics) {
		return v.Failf("", "Subscription.Topics = %q, want %q: %s", prov.sub.Topics, wantTopics, desc)
	}
	if prov.ctx != req.Context() {
		return v.Failf("", "Subscribe did not receive the request's context: %s", desc)
	}
	if prov.sub.Client == nil {
		return v.Failf("", "Subscription.Client is nil: %s", desc)
	}
	if c.FirstFlushFails && c.Shape.canFailFlush() && c.ProvErr != "before" && c.ProvSend > 0 {
		// the provider's first Send fails at the upgrade flush and the provider returns that error:
		// the subscription failed before anything was sent
		v.Class("first-flush-fails")
		if prov.sendErr == nil {
			return v.Failf("", "the first flush failed but the provider's Send/Flush did not report it: %s", desc)
		}
		if co.body.Len() > 0 && !strings.Contains(co.body.String(), prov.sendErr.Error()) || strings.Contains(co.body.String(), "data: m") {
			return v.Failf("", "event bytes were written although the upgrade flush failed: %s", desc)
		}
		if co.status != http.StatusInternalServerError {
			return v.Failf("", "the subscription failed before anything was sent (first flush failed), status %d, want 500: %s", co.status, desc)
		}
		return v
	}
	switch c.ProvErr {
	case "before":
		if co.status != http.StatusInternalServerError {
			return v.Failf("", "provider refused the subscription before anything was sent: status %d, want 500: %s", co.status, desc)
		}
		if !strings.Contains(co.body.String(), errProvider.Error()) {
			return v.Failf("", "provider refused the subscription: body %q does not carry its error text: %s", co.body.String(), desc)
		}
	case "none":
		want := ""
		for i := 0; i < c.ProvSend; i++ {
			want += fmt.Sprintf("data: m%d\n\n", i)
		}
		if co.body.String() != want {
			return v.Failf("", "body %q, want %q: %s", co.body.String(), want, desc)
		}
		if c.ProvSend > 0 && (co.status != 200 || !headerFlushedBeforeFirstWrite(co.log)) {
			return v.Failf("", "stream started without the SSE header being flushed first: %s", desc)
		}
	}
	v.NonTrivial = c.HasHeader && len(c.Headers) > 0 && c.OnSession != "nil" && (len(c.Headers) > 1 || strings.ContainsAny(string(c.Headers[0]), "\r\n ") || c.Headers[0] == "")
	return v
}

func TestC16Server(t *testing.T) {
	stats.Run(t, stats.Prop[C16SrvCase]{ID: "C16", Rule: ruleC16b, Gen: genC16Srv, Check: checkC16Srv})
}

func FuzzC16(f *testing.F) {
	stats.Fuzz(f, stats.Prop[C16Case]{ID: "C16", Rule: ruleC16a, Gen: genC16, Check: checkC16})
}

// abbrev quotes s, replacing long runs of the filler byte by a count.
func abbrev(s string) string {
	var b strings.Builder
	for i := 0; i < len(s); {
		j := i
		for j < len(s) && s[j] == 'y' {
			j++
		}
		if j-i > 16 {
			fmt.Fprintf(&b, "<%d*y>", j-i)
			i = j
			continue
		}
		if j == i {
			j++
		}
		b.WriteString(s[i:j])
		i = j
	}
	return strconv.Quote(b.String())
}
