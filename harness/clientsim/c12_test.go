package clientsim

import (
	"errors"
	"fmt"
	"math"
	"strings"
	"testing"
	"time"

	sse "github.com/tmaxmax/go-sse"
	"pgregory.net/rapid"

	"verif/harness/oracle"
	"verif/harness/stats"
)

const ruleC12 = "rapid-generated Backoff settings (InitialInterval 0/default, 1ns..1h; Multiplier 0/default, 1, 1.5, 2, 10; Jitter 0/default, 0.1, 0.5, 0.9, -1, 1, 2; MaxInterval unset, below and above the initial interval; MaxElapsedTime unset, small, large; MaxRetries -1, 0, 1..5) x histories of 1..12 attempt outcomes (transport failure | successful connection that then drops, optionally carrying retry fields: valid digit strings 1..1e12 ms, 0, invalid ones - signed, empty, non-digit, decimal point - and several per connection) x virtual delays inside attempts; everything runs on testing/synctest's fake clock, so the instant of every attempt and of every OnRetry is exact. Oracle: a reference controller written from the doc comments of Backoff (base b, consecutive-retry count, series start) is stepped along the observed trace: each OnRetry happens at the instant the previous attempt ended, is followed by the next attempt exactly its wait later, its wait lies within +-Jitter of b (== b for Jitter -1), b grows by Multiplier capped at MaxInterval, a successful connection or an accepted server retry resets count/base/series start, MaxRetries bounds consecutive retries, a retry never ends after MaxElapsedTime and Connect only stops early when the largest possible wait would. Non-trivial: >= 3 consecutive failures and at least one of {reset by a successful connection, accepted server retry, MaxInterval cap reached, stop because of MaxElapsedTime}. Distinct: FNV-64 of the JSON of the case."

var (
	c12Initials = []int64{0, 0, 1, 2, 3, 7, 1e3, 1e6, 25e6, 1e9, 90e9, 3600e9}
	c12Mults    = []float64{0, 1, 1.5, 2, 10, 1.1}
	c12Jitters  = []float64{0, 0.1, 0.5, 0.9, -1, -1, -1, 1, 2, -0.5}
	c12Retries  = []string{"1", "7", "250", "1000", "1000000", "1000000000", "1000000000000", "0", "007"}
	c12BadRetry = []string{"+5", "-1", "", "1.5", "1e3", " 7", "5s", "0x10"}
)

func genC12(t *rapid.T) Script {
	var sc Script
	b := &sc.Backoff
	b.InitialNs = stats.From(t, c12Initials, "initial")
	b.Multiplier = stats.From(t, c12Mults, "mult")
	b.Jitter = stats.From(t, c12Jitters, "jitter")
	eff := b.InitialNs
	if eff <= 0 {
		eff = 500e6
	}
	switch stats.Pick(t, 4, "maxint") {
	case 1:
		b.MaxNs = eff / 2
	case 2:
		b.MaxNs = eff * 3
	case 3:
		b.MaxNs = eff * 20
	}
	switch stats.Pick(t, 5, "maxelapsed") {
	case 1:
		b.MaxElapseNs = eff * 2
	case 2:
		b.MaxElapseNs = eff * 40
	case 3:
		b.MaxElapseNs = 1 // the smallest limit there is
	}
	b.MaxRetries = stats.From(t, []int{-1, -3, 0, 0, 0, 1, 2, 3, 5}, "maxretries")
	if stats.Pct(t, "nthconn") >= 70 {
		sc.NthConn = 1 + stats.Pick(t, 2, "nthconnn")
	}
	n := 1 + stats.Pick(t, 12, "nattempts")
	for i := 0; i < n; i++ {
		var a Attempt
		if stats.Pct(t, "fails") < 70 {
			a.Kind = "neterr"
		} else {
			a.Kind = "stream"
			var s strings.Builder
			nl := stats.Pick(t, 4, "nlines")
			for j := 0; j < nl; j++ {
				switch k := stats.Pct(t, "line"); {
				case k < 45:
					s.WriteString("retry: " + stats.From(t, c12Retries, "retry") + "\n")
				case k < 65:
					s.WriteString("retry: " + stats.From(t, c12BadRetry, "badretry") + "\n")
				case k < 85:
					s.WriteString("data: x\n\n")
				default:
					s.WriteString("\n")
				}
			}
			a.Stream = stats.B(s.String())
			a.End = stats.From(t, []string{"eof", "err"}, "end")
		}
		if stats.Pct(t, "delay") < 25 {
			a.DelayMs = 1 + stats.Pick(t, 2000, "delayms")
		}
		sc.Attempts = append(sc.Attempts, a)
	}
	return sc
}

type effCfg struct {
	initial, maxInt, maxElapsed float64
	mult, jitter                float64
	maxRetries                  int
}

func effective(b BackoffCfg) effCfg {
	e := effCfg{initial: float64(b.InitialNs), mult: b.Multiplier, jitter: b.Jitter, maxInt: float64(b.MaxNs), maxElapsed: float64(b.MaxElapseNs), maxRetries: b.MaxRetries}
	if e.initial <= 0 {
		e.initial = 500e6 // "Defaults to 500ms"
	}
	if e.mult < 1 {
		e.mult = 1.5 // "Must be >=1 ... Defaults to 1.5"
	}
	if e.jitter != -1 && (e.jitter <= 0 || e.jitter >= 1) {
		e.jitter = 0.5 // "Must be in range (0, 1); -1 = no randomization. Defaults to 0.5"
	}
	return e
}

// base is the set of values the base interval b may have: durations are whole nanoseconds,
// so every growth step may lose up to 1ns against the exact product (lo is the truncated
// chain, hi the exact one). At realistic scales lo and hi differ by a few nanoseconds.
type base struct{ lo, hi float64 }

func (e effCfg) bounds(b base) (lo, hi float64) {
	if e.jitter == -1 {
		return b.lo, b.hi
	}
	return b.lo - e.jitter*b.lo, b.hi + e.jitter*b.hi + 1
}

func (e effCfg) grow(b base) base {
	n := base{math.Floor(b.lo * e.mult), b.hi * e.mult}
	if e.maxInt > 0 {
		n.lo, n.hi = math.Min(n.lo, e.maxInt), math.Min(n.hi, e.maxInt)
	}
	return n
}

func exact(x float64) base { return base{x, x} }

func checkC12(t *testing.T, sc Script) *stats.Verdict {
	v := &stats.Verdict{Size: len(sc.Attempts)}
	e := effective(sc.Backoff)
	// exclusion by projection: bases beyond 2^62 ns or a virtual horizon beyond ~100 years
	{
		b, total := exact(e.initial), 0.0
		for _, a := range sc.Attempts {
			if a.Kind == "stream" {
				b = exact(e.initial)
				for _, r := range oracle.Interpret([]byte(a.Stream), "", oracle.Connection).Retries {
					if r.Millis > 0 {
						b = exact(float64(r.Millis) * 1e6)
					} else {
						b = exact(e.initial) // "retry: 0": back to the initial interval or to 0 (6.3); project the larger one
					}
				}
			}
			_, hi := e.bounds(b)
			total += hi + float64(a.DelayMs)*1e6
			b = e.grow(b)
			if hi > math.Pow(2, 62) || b.hi > math.Pow(2, 62) || total > 3e18 {
				v.Count("excluded_overflowing_schedule", 1)
				return v
			}
		}
	}
	tr := run(t, sc, nil)
	desc := func() string {
		return fmt.Sprintf("backoff %+v (effective %+v)\nscript %+v\ntrace:\n%s", sc.Backoff, e, sc.Attempts, tr)
	}
	if tr.panicked != nil {
		return v.Failf("panic", "panic: %v\n%s", tr.panicked, desc())
	}
	if tr.final == nil {
		return v.Failf("", "Connect returned nil\n%s", desc())
	}

	cands := []base{exact(e.initial)} // possible values of the base b (two after a "retry: 0", DESIGN 6.3)
	count := 0
	seriesStart := 0.0
	consecutive, maxConsecutive := 0, 0
	sawReset, sawServerRetry, sawCap, sawElapsedStop := false, false, false, false
	stopped := false

	for k, obs := range tr.attempts {
		if k > 0 {
			r := tr.retries[k-1]
			if obs.at != r.at+r.d {
				return v.Failf("", "attempt %d started at %v, but OnRetry announced a wait of %v at %v (expected start %v)\n%s", k, obs.at, r.d, r.at, r.at+r.d, desc())
			}
		}
		if k >= len(sc.Attempts) {
			break // script end: the harness cancelled inside the transport
		}
		a := sc.Attempts[k]
		tf := float64(obs.answered)
		if a.Kind == "stream" {
			count, seriesStart, cands = 0, tf, []base{exact(e.initial)}
			if consecutive > 0 {
				sawReset = true
			}
			consecutive = 0
			for _, r := range oracle.Interpret([]byte(a.Stream), "", oracle.Connection).Retries {
				sawServerRetry = true
				if r.Millis > 0 {
					cands = []base{exact(float64(r.Millis) * 1e6)}
				} else {
					cands = []base{exact(e.initial), exact(0)}
					v.Count("lenient_retry_zero", 1)
				}
			}
		}
		// the attempt has failed / the connection has dropped at tf
		consecutive++
		if consecutive > maxConsecutive {
			maxConsecutive = consecutive
		}
		elapsed := tf - seriesStart
		mustStop := e.maxRetries < 0 || (e.maxRetries > 0 && count == e.maxRetries)
		mayStop := mustStop
		if e.maxElapsed > 0 {
			all := true
			for _, b := range cands {
				lo, hi := e.bounds(b)
				if elapsed+hi > e.maxElapsed {
					mayStop = true
				}
				if !(elapsed+math.Floor(lo) > e.maxElapsed) {
					all = false
				}
			}
			if all {
				mustStop = true
			}
		}
		isLast := k == len(tr.attempts)-1
		if isLast && len(tr.retries) == k {
			// Connect stopped here
			stopped = true
			if !mayStop {
				return v.Failf("", "Connect gave up after attempt %d (count=%d, elapsed=%v, base candidates %v ns) although neither MaxRetries nor MaxElapsedTime allows stopping\n%s", k, count, time.Duration(elapsed), cands, desc())
			}
			if !(e.maxRetries < 0 || (e.maxRetries > 0 && count == e.maxRetries)) {
				sawElapsedStop = true
			}
			break
		}
		if len(tr.retries) <= k {
			return v.Failf("", "no OnRetry call after attempt %d although attempt %d was made\n%s", k, k+1, desc())
		}
		r := tr.retries[k]
		if mustStop {
			return v.Failf("", "a retry followed attempt %d although the limits forbid it (MaxRetries=%d, consecutive retries so far=%d, elapsed=%v)\n%s", k, e.maxRetries, count, time.Duration(elapsed), desc())
		}
		if float64(r.at) != tf {
			return v.Failf("", "OnRetry #%d was called at %v, the attempt ended at %v\n%s", k, r.at, time.Duration(tf), desc())
		}
		w := float64(r.d)
		var keep []base
		for _, b := range cands {
			lo, hi := e.bounds(b)
			if w >= math.Floor(lo)-1 && w <= hi+1 && (e.jitter != -1 || (w >= b.lo-2-1e-9*b.hi && w <= b.hi+2+1e-9*b.hi)) {
				keep = append(keep, b)
			}
		}
		if len(keep) == 0 {
			lo, hi := e.bounds(cands[0])
			return v.Failf("wait-out-of-range", "wait #%d (consecutive retry %d) is %v; the base is %v..%v, so it must lie in [%v, %v] (jitter %v)\n%s", k, count+1, r.d, time.Duration(cands[0].lo), time.Duration(cands[0].hi), time.Duration(lo), time.Duration(hi), e.jitter, desc())
		}
		if e.maxElapsed > 0 && elapsed+w > e.maxElapsed+1 {
			return v.Failf("", "retry #%d started although elapsed %v + wait %v exceeds MaxElapsedTime %v\n%s", k, time.Duration(elapsed), r.d, time.Duration(e.maxElapsed), desc())
		}
		count++
		cands = keep
		for i, b := range cands {
			nb := e.grow(b)
			if e.maxInt > 0 && nb.hi == e.maxInt && b.hi*e.mult >= e.maxInt {
				sawCap = true
			}
			cands[i] = nb
		}
	}
	if len(tr.retries) > len(tr.attempts) {
		return v.Failf("", "more OnRetry calls (%d) than attempts (%d)\n%s", len(tr.retries), len(tr.attempts), desc())
	}
	var ce *sse.ConnectionError
	if stopped {
		if !errors.As(tr.final, &ce) {
			return v.Failf("", "retries exhausted but Connect returned %T %v\n%s", tr.final, tr.final, desc())
		}
	} else if !errors.Is(tr.final, tr.ctxErrAtEnd) || tr.ctxErrAtEnd == nil {
		return v.Failf("", "script ended by cancellation but Connect returned %v\n%s", tr.final, desc())
	}
	if sawReset {
		v.Class("reset-by-success")
	}
	if sawServerRetry {
		v.Class("server-retry-accepted")
	}
	if sawCap {
		v.Class("maxinterval-cap-reached")
	}
	if sawElapsedStop {
		v.Class("stopped-by-maxelapsed")
	}
	if e.jitter == -1 {
		v.Class("jitter-off")
	}
	if sc.NthConn > 0 {
		v.Class("client-value-reused")
	}
	if stopped && !sawElapsedStop {
		v.Class("stopped-by-maxretries")
	}
	v.NonTrivial = maxConsecutive >= 3 && (sawReset || sawServerRetry || sawCap || sawElapsedStop)
	return v
}

func TestC12(t *testing.T) {
	stats.Run(t, stats.Prop[Script]{ID: "C12", Rule: ruleC12, Gen: genC12, Check: checkC12})
}

func FuzzC12(f *testing.F) {
	stats.Fuzz(f, stats.Prop[Script]{ID: "C12", Rule: ruleC12, Gen: genC12, Check: checkC12})
}
