package clientsim

import (
	"errors"
	"fmt"
	"net/http"
	"strings"
	"testing"

	sse "github.com/tmaxmax/go-sse"
	"pgregory.net/rapid"

	"verif/harness/oracle"
	"verif/harness/stats"
)

const ruleC10 = "rapid-generated histories of 1..8 attempts (transport failure | response rejected by the validator | stream of id/data/event/comment lines with IDs normal, empty, containing NUL, repeated; ended cleanly, by a read error, or in mid-event) with unlimited retries and a request body of every kind (none, NoBody, with GetBody, without GetBody, GetBody failing at its j-th call); 10% of the attempts of replayable requests are first answered with a 301/302/303/307/308 redirect, which the real http.Client follows (every later reconnection must again be the original request); the scripted transport records the Last-Event-ID header, reads the request body of every attempt (or, for half of the transport failures, fails before reading it) and closes it; a closed body cannot be read again. Oracle: the header of attempt k+1 equals the LastEventID of the last event the reference interpreter DISPATCHES over attempts 1..k (threading the ID through; absent iff empty); every retry reads the full original body from a reader obtained by a fresh GetBody call (calls == attempts-1); a body that cannot be re-obtained ends Connect with ErrNoGetBody / GetBody's error after exactly the attempts made so far. Non-trivial: >= 3 attempts, a non-empty ID was dispatched, and a later attempt failed or was cut in mid-event. Distinct: FNV-64 of the JSON of the case."

var c10IDs = []string{"1", "2", "42", "abc", "", "", "a\x00b", "\x00", "x y", "é", "1"}

func genC10Stream(t *rapid.T) string {
	var b strings.Builder
	n := stats.Pick(t, 9, "nlines")
	for i := 0; i < n; i++ {
		switch k := stats.Pct(t, "line"); {
		case k < 30:
			b.WriteString("id: " + stats.From(t, c10IDs, "id") + "\n")
		case k < 36:
			b.WriteString("id\n")
		case k < 58:
			b.WriteString("data: " + stats.From(t, []string{"x", "hello", ""}, "data") + "\n")
		case k < 66:
			b.WriteString("event: " + stats.From(t, []string{"t", "u"}, "type") + "\n")
		case k < 72:
			b.WriteString(": c\n")
		default:
			b.WriteString("\n")
		}
	}
	switch stats.Pick(t, 4, "tail") {
	case 0:
		b.WriteString("\n")
	case 1:
		b.WriteString("id: " + stats.From(t, c10IDs, "tailid") + "\ndata: unfinished") // ID only in a truncated event
	case 2:
		b.WriteString("id: " + stats.From(t, c10IDs, "tailid") + "\n") // terminated line, no blank line
	}
	return b.String()
}

func genC10(t *rapid.T) Script {
	var sc Script
	sc.Backoff = BackoffCfg{InitialNs: 1e6, Multiplier: 1, Jitter: 0.5, MaxRetries: 0}
	n := 1 + stats.Pick(t, 8, "nattempts")
	for i := 0; i < n; i++ {
		var a Attempt
		switch k := stats.Pct(t, "akind"); {
		case k < 22:
			a.Kind = "neterr"
			a.NoRead = rapid.Bool().Draw(t, "noread")
		case k < 26:
			a.Kind = "reject"
		default:
			a.Kind = "stream"
			a.Stream = stats.B(genC10Stream(t))
			a.End = stats.From(t, []string{"eof", "eof", "err"}, "end")
			if a.End == "err" && stats.Pct(t, "timeouterr") < 35 {
				a.ErrKind = "deadline" // a net.Error with Timeout() true, like http.Client.Timeout firing while the body is read
			}
			if rapid.Bool().Draw(t, "chunked") {
				a.Chunks = []int{1 + stats.Pick(t, 9, "chunk")}
			}
			if stats.Pct(t, "filler") < 12 {
				// more data than the scanner buffer holds after the last ID of this connection
				a.Filler = stats.From(t, []int{130, 260, 300, 600}, "fillern")
				a.Stream = stats.B(strings.TrimSuffix(string(a.Stream), "data: unfinished") + "\n")
				if a.Chunks != nil {
					a.Chunks = []int{512 + a.Chunks[0]}
				}
			}
		}
		sc.Attempts = append(sc.Attempts, a)
	}
	if stats.Pct(t, "calls") >= 75 {
		// no retries inside Connect: every attempt is a separate Connect call on the same Connection
		sc.Backoff.MaxRetries = -1
		sc.Calls = len(sc.Attempts) + 1
	}
	sc.Body = stats.From(t, []string{"none", "nobody", "getbody", "getbody", "getbody", "nogetbody", "getbodyfail"}, "body")
	if sc.Body == "getbodyfail" {
		sc.GetBodyFail = stats.Pick(t, 4, "getbodyfail")
	}
	if sc.Body == "none" || sc.Body == "nobody" || sc.Body == "getbody" {
		// redirects, followed by the real http.Client (bodies that cannot be replayed are left out:
		// net/http then hands the 307/308 itself to the caller)
		for i := range sc.Attempts {
			if stats.Pct(t, "redirect") < 10 {
				sc.Attempts[i].Redirect = stats.From(t, []int{301, 302, 303, 307, 308}, "redirectstatus")
			}
		}
	}
	return sc
}

// dispatched returns what the reference says a Connection dispatches for one attempt.
func dispatched(a Attempt, lastID string) (events []oracle.Event, newLastID string, truncatedID, nulID, emptyReset, filler bool) {
	ref := oracle.Interpret([]byte(a.body()), lastID, oracle.Connection)
	newLastID = lastID
	for _, b := range ref.Blocks {
		if b.Event < 0 {
			continue
		}
		// the flush of a pending event happens only at a CLEAN end of the stream
		if !b.Terminated && a.End != "eof" {
			continue
		}
		ev := ref.Events[b.Event]
		events = append(events, ev)
		if ev.LastEventID == "" && newLastID != "" {
			emptyReset = true
		}
		newLastID = ev.LastEventID
	}
	if a.Filler > 0 {
		filler = true
	}
	if strings.Contains(string(a.Stream), "\x00") {
		nulID = true
	}
	if ref.UnexpectedEOF || a.End == "err" {
		// was there an id line after the last dispatch?
		if len(ref.Blocks) > 0 {
			last := ref.Blocks[len(ref.Blocks)-1]
			if !last.Terminated && strings.Contains(a.body()[last.Start:], "id") {
				truncatedID = true
			}
		}
	}
	return
}

func checkC10(t *testing.T, sc Script) *stats.Verdict {
	v := &stats.Verdict{Size: len(sc.Attempts)}
	tr := run(t, sc, nil)
	desc := func() string { return fmt.Sprintf("script %+v\ntrace:\n%s", sc, tr) }
	if tr.panicked != nil {
		return v.Failf("panic", "panic: %v\n%s", tr.panicked, desc())
	}
	// reference walk
	lastID := ""
	sawNonEmpty, laterFailure := false, false
	var wantEvents []oracle.Event
	wantAttempts := 0
	final := "ctx"
	getBody := 0
walk:
	for k := 0; ; k++ {
		if k > 0 {
			switch sc.Body {
			case "nogetbody":
				final = "nogetbody"
				break walk
			case "getbody", "getbodyfail":
				if sc.Body == "getbodyfail" && getBody == sc.GetBodyFail {
					final = "getbody"
					getBody++
					break walk
				}
				getBody++
			}
		}
		wantAttempts++
		if k >= len(tr.attempts) {
			return v.Failf("", "the transport saw only %d attempts, attempt %d was expected\n%s", len(tr.attempts), k, desc())
		}
		obs := tr.attempts[k]
		// -- the header
		switch {
		case lastID == "" && obs.hdr != nil:
			return v.Failf("", "attempt %d carries Last-Event-ID %q although the last dispatched ID is empty\n%s", k, obs.hdr, desc())
		case lastID != "" && (len(obs.hdr) != 1 || obs.hdr[0] != lastID):
			return v.Failf("", "attempt %d carries Last-Event-ID %q, want %q (ID of the last dispatched event)\n%s", k, obs.hdr, lastID, desc())
		}
		// -- a redirected attempt: the first request is the original one, the attempt proper is what
		// net/http makes of it
		redirected, bodyDropped := false, false
		if k < len(sc.Attempts) && sc.Attempts[k].Redirect != 0 {
			st := sc.Attempts[k].Redirect
			var hop *hopObs
			for i := range tr.hops {
				if tr.hops[i].attempt == k {
					hop = &tr.hops[i]
				}
			}
			if hop == nil {
				return v.Failf("", "attempt %d was sent straight to %q (method %s): a reconnection must send the original request again, not the one a redirect led to\n%s", k, obs.path, obs.method, desc())
			}
			redirected = true
			v.Class(fmt.Sprintf("redirect:%d", st))
			if hop.method != http.MethodPost || (sc.Body == "getbody" && (!hop.hasBody || hop.body != requestBody)) {
				return v.Failf("", "attempt %d (before its %d redirect) was %s with body %q, want the original POST with body %q\n%s", k, st, hop.method, hop.body, requestBody, desc())
			}
			if (lastID == "") != (hop.hdr == nil) || (lastID != "" && (len(hop.hdr) != 1 || hop.hdr[0] != lastID)) {
				return v.Failf("", "attempt %d (before its %d redirect) carries Last-Event-ID %q, want %q\n%s", k, st, hop.hdr, lastID, desc())
			}
			if st == 307 || st == 308 {
				if sc.Body == "getbody" {
					getBody++ // net/http obtains the body for the redirected request through GetBody
				}
			} else {
				bodyDropped = true // 301-303 turn the POST into a body-less GET
			}
		} else if obs.path == redirectedPath {
			return v.Failf("", "attempt %d was sent to %q although nothing redirected it: a reconnection must send the original request\n%s", k, obs.path, desc())
		}
		_ = redirected
		// -- the body
		switch {
		case bodyDropped:
			if obs.hasBody && obs.body != "" {
				return v.Failf("", "attempt %d: a %d redirect must have dropped the body, the transport read %q\n%s", k, sc.Attempts[k].Redirect, obs.body, desc())
			}
		}
		switch sc.Body {
		case "getbody", "getbodyfail", "nogetbody":
			if bodyDropped {
				break
			}
			if obs.unread {
				v.Class("attempt-failed-before-reading-the-body")
				break
			}
			if !obs.hasBody || obs.body != requestBody || obs.bodyErr != nil {
				return v.Failf("", "attempt %d: the transport read body %q (err %v), want the full original body %q\n%s", k, obs.body, obs.bodyErr, requestBody, desc())
			}
		default:
			if obs.hasBody && obs.body != "" {
				return v.Failf("", "attempt %d has a body although the request has none\n%s", k, desc())
			}
		}
		if k >= len(sc.Attempts) {
			break // script end: the harness cancelled
		}
		a := sc.Attempts[k]
		if a.Kind == "reject" {
			final = "reject"
			break
		}
		if a.Kind == "stream" {
			evs, nl, trunc, nul, empty, filler := dispatched(a, lastID)
			if filler {
				v.Class("more-than-a-buffer-after-the-last-id")
			}
			wantEvents = append(wantEvents, evs...)
			if sawNonEmpty && (a.End == "err" || trunc) {
				laterFailure = true
			}
			lastID = nl
			if lastID != "" {
				sawNonEmpty = true
			}
			if trunc {
				v.Class("id-only-in-truncated-event")
			}
			if nul {
				v.Class("nul-id")
			}
			if empty {
				v.Class("empty-id-reset")
			}
		} else if sawNonEmpty {
			laterFailure = true
		}
	}
	if len(tr.attempts) != wantAttempts {
		return v.Failf("", "the transport saw %d attempts, want %d (final %s)\n%s", len(tr.attempts), wantAttempts, final, desc())
	}
	if (sc.Body == "getbody" || sc.Body == "getbodyfail") && tr.getBodyCalls != getBody {
		return v.Failf("", "GetBody was called %d times, want %d (one fresh body per retry)\n%s", tr.getBodyCalls, getBody, desc())
	}
	var ce *sse.ConnectionError
	switch final {
	case "nogetbody":
		if !errors.As(tr.final, &ce) || !errors.Is(tr.final, sse.ErrNoGetBody) {
			return v.Failf("", "body without GetBody: Connect returned %v, want *ConnectionError wrapping ErrNoGetBody\n%s", tr.final, desc())
		}
		v.Class("no-getbody")
	case "getbody":
		if !errors.As(tr.final, &ce) || !errors.Is(tr.final, errGetBody) {
			return v.Failf("", "failing GetBody: Connect returned %v, want *ConnectionError wrapping GetBody's error\n%s", tr.final, desc())
		}
		v.Class("getbody-fails")
	case "reject":
		if !errors.As(tr.final, &ce) || !errors.Is(tr.final, errReject) {
			return v.Failf("", "rejected response: Connect returned %v\n%s", tr.final, desc())
		}
	default:
		if tr.final == nil || !errors.Is(tr.final, tr.ctxErrAtEnd) {
			return v.Failf("", "Connect returned %v, want the context's error\n%s", tr.final, desc())
		}
	}
	if sc.Calls > 1 {
		v.Class("connect-called-again-on-the-same-connection")
	}
	// events (IDs as dispatched)
	if len(tr.events) != len(wantEvents) {
		return v.Failf("", "%d events dispatched, reference says %d\n%s", len(tr.events), len(wantEvents), desc())
	}
	for i, e := range tr.events {
		w := wantEvents[i]
		if e.LastEventID != w.LastEventID || e.Type != w.Type || e.Data != w.Data {
			return v.Failf("", "event %d is %+v, reference %+v\n%s", i, e, w, desc())
		}
	}
	v.Class("body:" + sc.Body)
	v.NonTrivial = wantAttempts >= 3 && sawNonEmpty && laterFailure
	return v
}

func TestC10(t *testing.T) {
	stats.Run(t, stats.Prop[Script]{ID: "C10", Rule: ruleC10, Gen: genC10, Check: checkC10})
}

func FuzzC10(f *testing.F) {
	stats.Fuzz(f, stats.Prop[Script]{ID: "C10", Rule: ruleC10, Gen: genC10, Check: checkC10})
}
