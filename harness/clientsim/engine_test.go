package clientsim

import (
	"context"
	"errors"
	"fmt"
	"io"
	"net"
	"net/http"
	"strings"
	"testing"
	"testing/synctest"
	"time"

	sse "github.com/tmaxmax/go-sse"

	"verif/harness/stats"
)

func TestMain(m *testing.M) { stats.Main(m) }

// ---------------------------------------------------------------------------------------
// Script: what the transport does at each attempt, plus the client's configuration.
// All waiting is virtual (testing/synctest), so every instant is exact.
// ---------------------------------------------------------------------------------------

type Attempt struct {
	Kind    string  `json:"kind"`              // neterr | reject | stream
	Stream  stats.B `json:"stream,omitempty"`  // body of a stream attempt
	Chunks  []int   `json:"chunks,omitempty"`  // chunk sizes (cyclic); empty: one read
	End     string  `json:"end,omitempty"`     // eof | err | cancel | deadline (how the body ends after Stream)
	DelayMs int     `json:"delayms,omitempty"` // virtual delay before the transport answers
	ReadMs  int     `json:"readms,omitempty"`  // virtual delay before each body read
	HangMs  int     `json:"hangms,omitempty"`  // cancel: how long the last read blocks before the harness cancels
	Filler  int     `json:"filler,omitempty"`  // number of 32-byte id-less filler events appended to Stream (so that one connection carries more than the scanner's buffer)
	// Redirect != 0: the first request of this attempt is answered with that redirect status
	// (301, 302, 303, 307, 308) and a Location; the real http.Client then re-issues the request
	// (as a body-less GET for 301-303, with a fresh body from GetBody for 307/308) and THAT request
	// is the attempt proper. Later reconnections must again be the original request.
	Redirect   int    `json:"redirect,omitempty"`
	NoBodyResp bool   `json:"nobodyresp,omitempty"` // stream with an empty body ending in EOF: the response body is http.NoBody, as the real transport gives for Content-Length: 0
	Status     int    `json:"status,omitempty"`     // stream: response status (0 = 200)
	CT         string `json:"ct,omitempty"`         // stream: Content-Type header ("" = text/event-stream, "none" = header absent); judged by DefaultValidator only
	NoRead     bool   `json:"noread,omitempty"`     // neterr: the transport fails before reading the request body (a dial failure); it closes the body, as RoundTrippers must
	ErrKind    string `json:"errkind,omitempty"`    // neterr / End=err: "" plain | deadline | canceled: an error that LOOKS like a context error but does not come from the request's context (e.g. a dial or client timeout)
}

type BackoffCfg struct {
	InitialNs   int64   `json:"initial"`
	Multiplier  float64 `json:"mult"`
	Jitter      float64 `json:"jitter"`
	MaxNs       int64   `json:"maxinterval"`
	MaxElapseNs int64   `json:"maxelapsed"`
	MaxRetries  int     `json:"maxretries"`
}

func (b BackoffCfg) real() sse.Backoff {
	return sse.Backoff{InitialInterval: time.Duration(b.InitialNs), Multiplier: b.Multiplier, Jitter: b.Jitter, MaxInterval: time.Duration(b.MaxNs), MaxElapsedTime: time.Duration(b.MaxElapseNs), MaxRetries: b.MaxRetries}
}

type Script struct {
	Backoff  BackoffCfg `json:"backoff"`
	Attempts []Attempt  `json:"attempts"`
	// Body of the request: none | nobody | getbody | nogetbody | getbodyfail
	Body         string `json:"body,omitempty"`
	GetBodyFail  int    `json:"getbodyfail,omitempty"`  // getbodyfail: index of the failing GetBody call
	CancelInWait int    `json:"cancelinwait,omitempty"` // >0: cancel during the wait after the k-th OnRetry (1-based), at half of the wait
	DeadlineMs   int    `json:"deadlinems,omitempty"`   // >0: the request context has this deadline
	BufMax       int    `json:"bufmax,omitempty"`
	// NthConn > 0: the Client value is used for that many throw-away NewConnection calls first (a
	// Client is documented as reusable: "used to initialize new connections to different servers")
	NthConn int `json:"nthconn,omitempty"`
	// Calls > 1: when Connect returns for a reason other than its context, it is called again on
	// the same Connection, up to Calls times in total (each call is a reconnection attempt too)
	Calls int `json:"calls,omitempty"`
	// Cause: the request context carries a cancellation cause (WithCancelCause / WithTimeoutCause):
	// its Err() is still Canceled / DeadlineExceeded. ReportCause: the transport and the response
	// body then report context.Cause(ctx) instead of ctx.Err() - as net/http's Transport does
	// since Go 1.23.
	Cause       bool `json:"cause,omitempty"`
	ReportCause bool `json:"reportcause,omitempty"`
	// DefaultValidator: the client validates responses with sse.DefaultValidator ("checks the
	// content type to be text/event-stream and the response status code to be 200 OK") instead of
	// the harness's status-only validator.
	DefaultValidator bool `json:"defaultvalidator,omitempty"`
}

// contentTypes is the table of Content-Type values the scripts use, with the verdict the
// documentation of DefaultValidator implies (media types are case-insensitive and may carry
// parameters).
var contentTypes = map[string]bool{
	"":                                  true, // text/event-stream
	"text/event-stream; charset=utf-8":  true,
	"text/event-stream;charset=UTF-8":   true,
	"TEXT/Event-Stream":                 true,
	"none":                              false, // no header at all
	"text/plain":                        false,
	"application/json":                  false,
	"text/html; charset=utf-8":          false,
	"application/x-ndjson; text/events": false,
}

// rejected tells whether the response of attempt a must be refused by the validator in use.
func (sc Script) rejected(a Attempt) bool {
	switch {
	case a.Kind == "reject":
		return true
	case a.Kind != "stream":
		return false
	case a.Status != 0 && a.Status != 200:
		return true
	}
	return sc.DefaultValidator && !contentTypes[a.CT]
}

var errCtxCause = errors.New("harness: the cause the request context ended with")

// ctxErrOf is the error the scripted transport reports for a finished request context.
func (sc Script) ctxErrOf(ctx context.Context) error {
	if sc.Cause && sc.ReportCause {
		return context.Cause(ctx)
	}
	return ctx.Err()
}

// ---------------------------------------------------------------------------------------
// Trace: what was observed.
// ---------------------------------------------------------------------------------------

type attemptObs struct {
	at       time.Duration
	answered time.Duration
	hdr      []string // Last-Event-ID header values (nil: absent)
	body     string   // what the transport read from the request body
	bodyErr  error
	hasBody  bool
	unread   bool // the transport failed before reading the request body
	kind     string
	method   string
	path     string
}

// hopObs is the first request of a redirected attempt.
type hopObs struct {
	attempt int
	method  string
	hdr     []string
	body    string
	hasBody bool
}

type retryObs struct {
	at  time.Duration
	err error
	d   time.Duration
}

type Trace struct {
	attempts           []attemptObs
	hops               []hopObs
	retries            []retryObs
	events             []sse.Event
	eventAttempt       []int // index of the attempt during which each event was dispatched
	final              error
	returnedAt         time.Duration
	cancelledAt        time.Duration // -1: never by the harness
	getBodyCalls       int
	ctxErrAtEnd        error
	panicked           any
	onRetryAfterCancel bool
	connectCalls       int
	finals             []error // results of the Connect calls before the last one
}

var (
	errNet     = errors.New("harness: transport failure")
	errReject  = errors.New("harness: validator rejects")
	errBoom    = errors.New("harness: body read failure")
	errGetBody = errors.New("harness: GetBody failure")
	// errors of the transport's own making that wrap the context sentinels while the request's context is alive
	// (the two timeouts are what net/http reports for Client.Timeout and for transport timeouts: a
	// net.Error with Timeout() true that also matches context.DeadlineExceeded)
	errNetDeadline  error = &timeoutError{"harness: transport timeout: context deadline exceeded (Client.Timeout exceeded while awaiting headers)"}
	errNetCanceled        = fmt.Errorf("harness: transport aborted: %w", context.Canceled)
	errBoomDeadline error = &timeoutError{"harness: body read timeout: context deadline exceeded (Client.Timeout or context cancellation while reading body)"}
	errBoomCanceled       = fmt.Errorf("harness: body read aborted: %w", context.Canceled)
	errBoomEOF            = fmt.Errorf("harness: connection reset by peer: %w", io.EOF)
)

// timeoutError mimics net/http's timeout errors.
type timeoutError struct{ msg string }

func (e *timeoutError) Error() string     { return e.msg }
func (e *timeoutError) Timeout() bool     { return true }
func (e *timeoutError) Temporary() bool   { return true }
func (e *timeoutError) Is(err error) bool { return err == context.DeadlineExceeded }

var _ net.Error = (*timeoutError)(nil)

// body is the complete response body of a stream attempt.
func (a Attempt) body() string {
	if a.Filler == 0 {
		return string(a.Stream)
	}
	var b strings.Builder
	b.WriteString(string(a.Stream))
	for i := 0; i < a.Filler; i++ {
		fmt.Fprintf(&b, "data: filler %06d abcdefghijk\n\n", i) // 32 bytes, no id
	}
	return b.String()
}

func (a Attempt) netErr() error {
	switch a.ErrKind {
	case "deadline":
		return errNetDeadline
	case "canceled":
		return errNetCanceled
	}
	return errNet
}

func (a Attempt) readErr() error {
	switch a.ErrKind {
	case "wraps-eof":
		return errBoomEOF
	case "deadline":
		return errBoomDeadline
	case "canceled":
		return errBoomCanceled
	}
	return errBoom
}

const requestBody = "request-body-0123456789"

// redirectedPath is where redirected attempts are sent.
const redirectedPath = "/redirected"

// cancelMarker is the data of the event on which the consumer's callback cancels the request.
const cancelMarker = "CANCEL-NOW"

type scriptedBody struct {
	tr     *Trace
	a      Attempt
	ctx    context.Context
	cancel context.CancelFunc
	off, i int
	data   string
	t0     time.Time
	hung   bool
	ctxErr func(context.Context) error
}

func (b *scriptedBody) Read(p []byte) (int, error) {
	if b.a.ReadMs > 0 {
		time.Sleep(time.Duration(b.a.ReadMs) * time.Millisecond)
	}
	if b.data == "" {
		b.data = b.a.body()
	}
	data := b.data
	if b.off < len(data) {
		n := len(data) - b.off
		if len(b.a.Chunks) > 0 {
			if s := b.a.Chunks[b.i%len(b.a.Chunks)]; s > 0 && s < n {
				n = s
			}
			b.i++
		}
		if n > len(p) {
			n = len(p)
		}
		copy(p, data[b.off:b.off+n])
		b.off += n
		return n, nil
	}
	switch b.a.End {
	case "err":
		return 0, b.a.readErr()
	case "cancel":
		if !b.hung {
			b.hung = true
			time.Sleep(time.Duration(b.a.HangMs) * time.Millisecond)
			if b.tr.cancelledAt < 0 {
				b.tr.cancelledAt = time.Since(b.t0)
			}
			b.cancel()
		}
		<-b.ctx.Done()
		return 0, b.ctxErr(b.ctx)
	case "deadline", "cbcancel":
		<-b.ctx.Done()
		return 0, b.ctxErr(b.ctx)
	default:
		return 0, io.EOF
	}
}

func (b *scriptedBody) Close() error { return nil }

type rtFunc func(*http.Request) (*http.Response, error)

func (f rtFunc) RoundTrip(r *http.Request) (*http.Response, error) { return f(r) }

// trackedBody is a request body that, like a file or a pipe, cannot be read once closed.
type trackedBody struct {
	io.ReadCloser
	closed bool
}

var errClosedBody = errors.New("harness: read from a request body that was already closed")

func (b *trackedBody) Read(p []byte) (int, error) {
	if b.closed {
		return 0, errClosedBody
	}
	return b.ReadCloser.Read(p)
}

func (b *trackedBody) Close() error {
	b.closed = true
	return b.ReadCloser.Close()
}

// failingReader is a request body without GetBody.
type plainReader struct{ r *strings.Reader }

func (p *plainReader) Read(b []byte) (int, error) { return p.r.Read(b) }

// run executes the script against a real Connection inside a bubble.
func run(t *testing.T, sc Script, setup func(conn *sse.Connection, tr *Trace)) (tr *Trace) {
	tr = &Trace{cancelledAt: -1}
	defer func() {
		if r := recover(); r != nil {
			tr.panicked = r
		}
	}()
	synctest.Test(t, func(t *testing.T) {
		t0 := time.Now()
		var ctx context.Context
		var cancel context.CancelFunc
		switch {
		case sc.DeadlineMs > 0 && sc.Cause:
			ctx, cancel = context.WithTimeoutCause(context.Background(), time.Duration(sc.DeadlineMs)*time.Millisecond, errCtxCause)
		case sc.DeadlineMs > 0:
			ctx, cancel = context.WithTimeout(context.Background(), time.Duration(sc.DeadlineMs)*time.Millisecond)
		case sc.Cause:
			c, cc := context.WithCancelCause(context.Background())
			ctx, cancel = c, func() { cc(errCtxCause) }
		default:
			ctx, cancel = context.WithCancel(context.Background())
		}
		defer cancel()

		var reqBody io.Reader
		switch sc.Body {
		case "getbody", "getbodyfail":
			reqBody = strings.NewReader(requestBody) // http.NewRequest installs GetBody
		case "nogetbody":
			reqBody = &plainReader{strings.NewReader(requestBody)}
		case "nobody":
			reqBody = http.NoBody
		}
		req, err := http.NewRequestWithContext(ctx, http.MethodPost, "http://harness.invalid/events", reqBody)
		if err != nil {
			panic(err)
		}
		if sc.Body == "getbody" || sc.Body == "getbodyfail" {
			orig := req.GetBody
			req.GetBody = func() (io.ReadCloser, error) {
				k := tr.getBodyCalls
				tr.getBodyCalls++
				if sc.Body == "getbodyfail" && k == sc.GetBodyFail {
					return nil, errGetBody
				}
				rc, err := orig()
				if err != nil {
					return nil, err
				}
				return &trackedBody{ReadCloser: rc}, nil
			}
		}
		if req.Body != nil && req.Body != http.NoBody {
			req.Body = &trackedBody{ReadCloser: req.Body}
		}

		cl := &sse.Client{Backoff: sc.Backoff.real()}
		cl.ResponseValidator = func(r *http.Response) error {
			if sc.DefaultValidator {
				if err := sse.DefaultValidator(r); err != nil {
					return fmt.Errorf("%w: %w", errReject, err)
				}
				return nil
			}
			if r.StatusCode != 200 {
				return errReject
			}
			return nil
		}
		cl.OnRetry = func(err error, d time.Duration) {
			if tr.cancelledAt >= 0 && time.Since(t0) >= tr.cancelledAt {
				tr.onRetryAfterCancel = true
			}
			tr.retries = append(tr.retries, retryObs{time.Since(t0), err, d})
			if sc.CancelInWait > 0 && len(tr.retries) == sc.CancelInWait {
				time.AfterFunc(d/2, func() {
					if tr.cancelledAt < 0 {
						tr.cancelledAt = time.Since(t0)
					}
					cancel()
				})
			}
		}
		cl.HTTPClient = &http.Client{Transport: rtFunc(func(r *http.Request) (*http.Response, error) {
			k := len(tr.attempts)
			obs := attemptObs{at: time.Since(t0)}
			if v, ok := r.Header["Last-Event-Id"]; ok {
				obs.hdr = append([]string{}, v...)
			}
			var a Attempt
			if k < len(sc.Attempts) {
				a = sc.Attempts[k]
			} else {
				// the script is over: end the run by cancellation (DESIGN 5/C11)
				a = Attempt{Kind: "scriptend"}
			}
			obs.method, obs.path = r.Method, r.URL.Path
			if a.Redirect != 0 && r.URL.Path != redirectedPath {
				hop := hopObs{attempt: k, method: r.Method, hdr: obs.hdr}
				if r.Body != nil && r.Body != http.NoBody {
					b, _ := io.ReadAll(r.Body)
					hop.body, hop.hasBody = string(b), true
					r.Body.Close()
				}
				tr.hops = append(tr.hops, hop)
				return &http.Response{StatusCode: a.Redirect, Header: http.Header{"Location": {redirectedPath}}, Body: http.NoBody, Request: r}, nil
			}
			if r.Body != nil && r.Body != http.NoBody {
				if a.Kind == "neterr" && a.NoRead {
					obs.unread = true
				} else {
					b, err := io.ReadAll(r.Body)
					obs.body, obs.bodyErr, obs.hasBody = string(b), err, true
				}
				r.Body.Close() // "RoundTrip must always close the body, including on errors"
			}
			obs.kind = a.Kind
			if a.DelayMs > 0 {
				select {
				case <-time.After(time.Duration(a.DelayMs) * time.Millisecond):
				case <-r.Context().Done():
					obs.answered = time.Since(t0)
					tr.attempts = append(tr.attempts, obs)
					return nil, sc.ctxErrOf(r.Context())
				}
			}
			obs.answered = time.Since(t0)
			tr.attempts = append(tr.attempts, obs)
			switch a.Kind {
			case "neterr":
				return nil, a.netErr()
			case "scriptend":
				if tr.cancelledAt < 0 {
					tr.cancelledAt = time.Since(t0)
				}
				cancel()
				return nil, sc.ctxErrOf(r.Context())
			case "reject":
				return &http.Response{StatusCode: 503, Header: http.Header{}, Body: io.NopCloser(strings.NewReader("")), Request: r}, nil
			}
			body := &scriptedBody{tr: tr, a: a, ctx: r.Context(), cancel: cancel, t0: t0, ctxErr: sc.ctxErrOf}
			resp := &http.Response{StatusCode: 200, Header: http.Header{"Content-Type": {"text/event-stream"}}, Body: body, Request: r}
			if a.NoBodyResp && a.body() == "" && (a.End == "eof" || a.End == "") {
				resp.Body, resp.ContentLength = http.NoBody, 0
			}
			if a.Status != 0 {
				resp.StatusCode = a.Status
			}
			switch a.CT {
			case "":
			case "none":
				resp.Header.Del("Content-Type")
			default:
				resp.Header.Set("Content-Type", a.CT)
			}
			return resp, nil
		})}
		for i := 0; i < sc.NthConn; i++ {
			_ = cl.NewConnection(req.Clone(ctx))
		}
		conn := cl.NewConnection(req)
		if sc.BufMax > 0 {
			conn.Buffer(nil, sc.BufMax)
		}
		conn.SubscribeToAll(func(e sse.Event) {
			if e.Data == cancelMarker && tr.cancelledAt < 0 {
				// the consumer has seen enough: it cancels from inside the callback
				tr.cancelledAt = time.Since(t0)
				cancel()
			}
			tr.events = append(tr.events, e)
			tr.eventAttempt = append(tr.eventAttempt, len(tr.attempts)-1)
		})
		if setup != nil {
			setup(conn, tr)
		}
		tr.final = conn.Connect()
		tr.connectCalls = 1
		permanent := func(err error) bool {
			return errors.Is(err, errReject) || errors.Is(err, sse.ErrNoGetBody) || errors.Is(err, errGetBody)
		}
		for tr.connectCalls < sc.Calls && ctx.Err() == nil && !permanent(tr.final) {
			tr.finals = append(tr.finals, tr.final)
			tr.final = conn.Connect()
			tr.connectCalls++
		}
		tr.returnedAt = time.Since(t0)
		tr.ctxErrAtEnd = ctx.Err()
	})
	return tr
}

func (tr *Trace) String() string {
	var b strings.Builder
	for i, a := range tr.attempts {
		fmt.Fprintf(&b, "  attempt %d @%v (answered @%v) kind=%s Last-Event-ID=%q body=%q\n", i, a.at, a.answered, a.kind, a.hdr, a.body)
		if i < len(tr.retries) {
			r := tr.retries[i]
			fmt.Fprintf(&b, "    OnRetry #%d @%v wait=%v err=%v\n", i, r.at, r.d, r.err)
		}
	}
	fmt.Fprintf(&b, "  events=%d getBodyCalls=%d cancelledAt=%v Connect returned @%v: %v", len(tr.events), tr.getBodyCalls, tr.cancelledAt, tr.returnedAt, tr.final)
	return b.String()
}
