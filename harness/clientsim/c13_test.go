package clientsim

import (
	"context"
	"fmt"
	"io"
	"net/http"
	"strings"
	"sync"
	"testing"
	"testing/synctest"
	"time"

	sse "github.com/tmaxmax/go-sse"
	"pgregory.net/rapid"

	"verif/harness/stats"
)

const ruleC13a = "sequential routing: rapid-generated operation lists over one Connection: SubscribeEvent(type in {\"\", a, b, message}), SubscribeMessages, SubscribeToAll, Unsubscribe(i) for ANY remover handed out so far (repeated and stale removers, also after the same type was re-subscribed), Feed(event of type in {\"\", a, b, message, z}); a drawn prefix runs before Connect, the rest while connected (the response body is fed by the harness inside a synctest bubble and every Feed is followed by quiescence). Model: set of live callbacks with their type; after each Feed the invocation log must have grown by exactly one record per live callback whose type equals the event's type or that subscribed to all, carrying that event, and by nothing else. One fed event may make the first callback that runs cancel the request context (that event must still reach every callback; later feeds are skipped or - half of the time - continue as already-buffered data with a one-directional oracle) or panic (recovered by the caller of Connect; every later Subscribe*/unsubscribe call must still return). Non-trivial: >= 2 callbacks on one type, an unsubscribe followed by an event of that type, and an operation after Connect."
const ruleC13b = "concurrent pass (built with -race, real scheduler): 2..4 goroutines run generated subscribe/unsubscribe scripts while a feeder streams events through an io.Pipe without waiting; verdicts: the race detector (any DATA RACE with go-sse frames), and schedule-independent invariants from one mutex-ordered log with a permanent subscribe-to-all witness: only matching events, each at most once, in stream order, none after the remover returned, and every event whose witness record lies between a callback's subscribe-return and its remove-request. Non-trivial: >= 2 worker goroutines each performed >= 1 subscribe and >= 1 unsubscribe while >= 5 events were dispatched. Distinct: FNV-64 of the JSON of the case."

var c13Types = []string{"", "a", "b", "message"}

type C13Op struct {
	Kind string `json:"kind"` // sub | all | unsub | feed
	Type string `json:"type,omitempty"`
	Ref  int    `json:"ref,omitempty"` // unsub: which remover (mod number handed out)
}

type C13Case struct {
	Ops     []C13Op `json:"ops"`
	Connect int     `json:"connect"` // operations before Connect
	// CancelFeed > 0: during the dispatch of the CancelFeed-th fed event, the first callback that
	// runs cancels the request's context (what a consumer does when it has seen enough). That
	// event must still reach every subscribed callback; later feeds are skipped.
	CancelFeed int `json:"cancelfeed,omitempty"`
	// FeedAfterCancel: feeds after that cancellation are NOT skipped: the body keeps delivering (data
	// that was already buffered when the consumer cancelled). An implementation may stop dispatching
	// once its context is done, so for these events only one direction is checked: nothing reaches a
	// callback whose unsubscribe function has returned or that subscribed to another type, and
	// nobody is called twice.
	FeedAfterCancel bool `json:"feedaftercancel,omitempty"`
	// PanicFeed > 0: during the dispatch of the PanicFeed-th fed event the first callback that runs
	// panics (the consumer's bug; whoever called Connect recovers, as http.Server does for a
	// handler). The connection is over then, but every Subscribe* call and every unsubscribe
	// function must still return.
	PanicFeed int `json:"panicfeed,omitempty"`
}

func genC13Ops(t *rapid.T, n int, feed bool) []C13Op {
	var ops []C13Op
	for i := 0; i < n; i++ {
		var op C13Op
		k := stats.Pct(t, "opkind")
		switch {
		case k < 30:
			op = C13Op{Kind: "sub", Type: stats.From(t, c13Types, "type")}
		case k < 38:
			op = C13Op{Kind: "all"}
		case k < 62:
			op = C13Op{Kind: "unsub", Ref: stats.Pick(t, 16, "ref")}
		default:
			if feed {
				op = C13Op{Kind: "feed", Type: stats.From(t, []string{"", "a", "b", "message", "z", "a", ""}, "ftype")}
			} else {
				op = C13Op{Kind: "sub", Type: stats.From(t, c13Types, "type")}
			}
		}
		ops = append(ops, op)
	}
	return ops
}

func genC13(t *rapid.T) C13Case {
	n := 2 + stats.Pick(t, 28, "nops")
	c := C13Case{Ops: genC13Ops(t, n, true)}
	c.Connect = stats.Pick(t, n+1, "connect")
	if stats.Pct(t, "cancelfeed") >= 80 {
		c.CancelFeed = 1 + stats.Pick(t, 4, "cancelfeedn")
		c.FeedAfterCancel = rapid.Bool().Draw(t, "feedaftercancel")
	} else if stats.Pct(t, "panicfeed") >= 88 {
		c.PanicFeed = 1 + stats.Pick(t, 4, "panicfeedn")
	}
	return c
}

var errConsumerPanic = fmt.Errorf("harness: the consumer's callback panics")

type invocation struct {
	cb   int
	data string
	typ  string
}

func wire(typ, data string) string {
	s := ""
	if typ != "" {
		s += "event: " + typ + "\n"
	}
	return s + "data: " + data + "\n\n"
}

type feedBody struct {
	ch  chan string
	cur string
}

func (b *feedBody) Read(p []byte) (int, error) {
	if b.cur == "" {
		c, ok := <-b.ch
		if !ok {
			return 0, io.EOF
		}
		b.cur = c
	}
	n := copy(p, b.cur)
	b.cur = b.cur[n:]
	return n, nil
}
func (b *feedBody) Close() error { return nil }

func checkC13(t *testing.T, c C13Case) (v *stats.Verdict) {
	v = &stats.Verdict{Size: len(c.Ops)}
	defer func() {
		if r := recover(); r != nil {
			v.Failf("panic", "panic: %v", r)
		}
	}()
	var afterPanic func()
	synctest.Test(t, func(t *testing.T) {
		body := &feedBody{ch: make(chan string)}
		cl := &sse.Client{
			ResponseValidator: sse.NoopValidator,
			Backoff:           sse.Backoff{MaxRetries: -1},
			HTTPClient: &http.Client{Transport: rtFunc(func(r *http.Request) (*http.Response, error) {
				return &http.Response{StatusCode: 200, Header: http.Header{}, Body: body, Request: r}, nil
			})},
		}
		ctx, cancelCtx := context.WithCancel(context.Background())
		defer cancelCtx()
		req, _ := http.NewRequestWithContext(ctx, http.MethodGet, "http://harness.invalid/", nil)
		conn := cl.NewConnection(req)
		cancelNow := false // set while the event that triggers the cancellation is being fed
		cancelled := false
		panicNow, panicked := false, false

		var log []invocation
		type cbInfo struct {
			typ  string // "*" = all
			live bool
		}
		var cbs []cbInfo
		var removers []sse.EventCallbackRemover
		var removerOf []int // remover index -> callback id
		connected := false
		done := make(chan error, 1)
		feeds := 0
		unsubThenEvent, twoOnOneType, opAfterConnect := false, false, false
		removedTypes := map[string]bool{}

		connect := func() {
			connected = true
			go func() {
				defer func() {
					if r := recover(); r != nil {
						done <- fmt.Errorf("recovered from the consumer's panic: %v", r)
					}
				}()
				done <- conn.Connect()
			}()
			synctest.Wait()
		}
	ops:
		for i, op := range c.Ops {
			if i == c.Connect {
				connect()
			}
			if connected {
				opAfterConnect = true
			}
			switch op.Kind {
			case "sub", "all":
				id := len(cbs)
				typ := op.Type
				if op.Kind == "all" {
					typ = "*"
				}
				cbs = append(cbs, cbInfo{typ, true})
				f := func(e sse.Event) {
					if cancelNow && !cancelled {
						cancelled = true
						cancelCtx()
					}
					if panicNow && !panicked {
						panicked = true
						panic(errConsumerPanic)
					}
					log = append(log, invocation{id, e.Data, e.Type})
				}
				var rm sse.EventCallbackRemover
				switch {
				case op.Kind == "all":
					rm = conn.SubscribeToAll(f)
				case typ == "" && id%2 == 0:
					rm = conn.SubscribeMessages(f)
				default:
					rm = conn.SubscribeEvent(typ, f)
				}
				removers = append(removers, rm)
				removerOf = append(removerOf, id)
				n := 0
				for _, x := range cbs {
					if x.live && x.typ == typ {
						n++
					}
				}
				if n >= 2 {
					twoOnOneType = true
				}
			case "unsub":
				if len(removers) == 0 {
					continue
				}
				k := op.Ref % len(removers)
				removers[k]()
				if cbs[removerOf[k]].live {
					removedTypes[cbs[removerOf[k]].typ] = true
				} else {
					v.Class("stale-or-repeated-remover")
				}
				cbs[removerOf[k]].live = false
			case "feed":
				if !connected || panicked || (cancelled && !c.FeedAfterCancel) {
					continue // nothing is streaming yet / the consumer has cancelled or crashed
				}
				lenient := cancelled // the context is done: the implementation may have stopped dispatching
				feeds++
				cancelNow = feeds == c.CancelFeed
				panicNow = feeds == c.PanicFeed
				data := fmt.Sprintf("e%d", feeds)
				before := len(log)
				select {
				case body.ch <- wire(op.Type, data):
				default:
					if !lenient {
						v.Failf("", "op %d: the connection no longer reads its response body although neither it ended nor the context was cancelled", i)
						return
					}
					v.Class("stopped-reading-after-cancellation")
					continue
				}
				synctest.Wait()
				panicNow = false
				if panicked {
					v.Class("callback-panicked")
					break ops // what the panicking dispatch delivered is not specified; the rest is checked outside the bubble
				}
				got := log[before:]
				want := map[int]bool{}
				for id, x := range cbs {
					if x.live && (x.typ == "*" || x.typ == op.Type) {
						want[id] = true
					}
				}
				if removedTypes[op.Type] || removedTypes["*"] {
					unsubThenEvent = true
				}
				seen := map[int]bool{}
				for _, inv := range got {
					if inv.data != data || inv.typ != op.Type {
						v.Failf("", "op %d: callback %d was invoked with event {type=%q data=%q} while {type=%q data=%q} was fed", i, inv.cb, inv.typ, inv.data, op.Type, data)
						return
					}
					if seen[inv.cb] {
						v.Failf("", "op %d: callback %d (type %q) was invoked twice for event {type=%q data=%q}", i, inv.cb, cbs[inv.cb].typ, op.Type, data)
						return
					}
					seen[inv.cb] = true
					if !want[inv.cb] {
						why := "it is subscribed to type " + fmt.Sprintf("%q", cbs[inv.cb].typ)
						if !cbs[inv.cb].live {
							why = "its unsubscribe function had already returned"
						}
						v.Failf("", "op %d: callback %d was invoked for event {type=%q data=%q} although %s (ops %+v)", i, inv.cb, op.Type, data, why, c.Ops[:i+1])
						return
					}
				}
				for id := range want {
					if !seen[id] && !lenient {
						v.Failf("", "op %d: live callback %d (type %q) was NOT invoked for event {type=%q data=%q} (ops %+v, connect at %d)", i, id, cbs[id].typ, op.Type, data, c.Ops[:i+1], c.Connect)
						return
					}
				}
				if len(want) == 0 {
					v.Class("event-without-subscriber")
				}
				if cancelNow && cancelled {
					v.Class("context-cancelled-inside-a-dispatch")
				}
				if lenient {
					v.Class("event-fed-after-the-cancellation")
				}
				cancelNow = false
			}
		}
		if !connected {
			connect()
		}
		close(body.ch)
		synctest.Wait()
		select {
		case <-done:
		default:
			v.Failf("", "Connect did not return after the stream ended")
			return
		}
		if panicked {
			afterPanic = func() {
				// the connection is over; its registry must still work
				conn.SubscribeToAll(func(sse.Event) {})()
				conn.SubscribeEvent("a", func(sse.Event) {})()
				for _, rm := range removers {
					rm()
				}
			}
		}
		v.NonTrivial = twoOnOneType && unsubThenEvent && opAfterConnect && feeds > 0
	})
	if afterPanic != nil && v.Fail == "" {
		// A call that blocks on a mutex left locked by the panicking dispatch is invisible to the
		// bubble (mutexes do not block durably), so this runs outside it, under a generous
		// wall-clock watchdog: the calls take microseconds.
		ok := make(chan struct{})
		go func() { afterPanic(); close(ok) }()
		select {
		case <-ok:
		case <-time.After(30 * time.Second):
			v.Failf("hang-after-callback-panic", "after a callback panicked during a dispatch (recovered by the caller of Connect), a Subscribe* call or an unsubscribe function did not return within 30s (ops %+v, panic at feed %d)", c.Ops, c.PanicFeed)
		}
	}
	return v
}

func TestC13(t *testing.T) {
	stats.Run(t, stats.Prop[C13Case]{ID: "C13", Rule: ruleC13a, Gen: genC13, Check: checkC13})
}

// ---------------------------------------------------------------------------------------
// concurrent pass
// ---------------------------------------------------------------------------------------

type C13RaceCase struct {
	Workers [][]C13Op `json:"workers"`
	Events  []string  `json:"events"` // types of the streamed events
}

func genC13Race(t *rapid.T) C13RaceCase {
	var c C13RaceCase
	nw := 2 + stats.Pick(t, 3, "nworkers")
	for i := 0; i < nw; i++ {
		c.Workers = append(c.Workers, genC13Ops(t, 3+stats.Pick(t, 10, "nops"), false))
	}
	ne := 5 + stats.Pick(t, 40, "nevents")
	for i := 0; i < ne; i++ {
		c.Events = append(c.Events, stats.From(t, []string{"", "a", "b", "message", "a", ""}, "etype"))
	}
	return c
}

type raceRec struct {
	kind string // subret | unsubreq | unsubret | inv | wit
	cb   int
	seq  int // event sequence number (inv/wit)
	typ  string
}

func checkC13Race(t *testing.T, c C13RaceCase) *stats.Verdict {
	v := &stats.Verdict{Size: len(c.Events)}
	var mu sync.Mutex
	var log []raceRec
	add := func(r raceRec) { mu.Lock(); log = append(log, r); mu.Unlock() }

	pr, pw := io.Pipe()
	cl := &sse.Client{
		ResponseValidator: sse.NoopValidator,
		Backoff:           sse.Backoff{MaxRetries: -1},
		HTTPClient: &http.Client{Transport: rtFunc(func(r *http.Request) (*http.Response, error) {
			return &http.Response{StatusCode: 200, Header: http.Header{}, Body: pr, Request: r}, nil
		})},
	}
	req, _ := http.NewRequestWithContext(context.Background(), http.MethodGet, "http://harness.invalid/", nil)
	conn := cl.NewConnection(req)
	seqOf := func(e sse.Event) int {
		var n int
		fmt.Sscanf(e.Data, "e%d", &n)
		return n
	}
	conn.SubscribeToAll(func(e sse.Event) { add(raceRec{kind: "wit", seq: seqOf(e), typ: e.Type}) })

	var idMu sync.Mutex
	nextID := 0
	cbType := map[int]string{}
	var wg sync.WaitGroup
	start := make(chan struct{})
	for _, script := range c.Workers {
		script := script
		wg.Add(1)
		go func() {
			defer wg.Done()
			<-start
			var removers []sse.EventCallbackRemover
			var ids []int
			for _, op := range script {
				switch op.Kind {
				case "sub", "all":
					idMu.Lock()
					id := nextID
					nextID++
					typ := op.Type
					if op.Kind == "all" {
						typ = "*"
					}
					cbType[id] = typ
					idMu.Unlock()
					f := func(e sse.Event) { add(raceRec{kind: "inv", cb: id, seq: seqOf(e), typ: e.Type}) }
					var rm sse.EventCallbackRemover
					if op.Kind == "all" {
						rm = conn.SubscribeToAll(f)
					} else {
						rm = conn.SubscribeEvent(typ, f)
					}
					add(raceRec{kind: "subret", cb: id})
					removers, ids = append(removers, rm), append(ids, id)
				case "unsub":
					if len(removers) == 0 {
						continue
					}
					k := op.Ref % len(removers)
					add(raceRec{kind: "unsubreq", cb: ids[k]})
					removers[k]()
					add(raceRec{kind: "unsubret", cb: ids[k]})
				}
			}
		}()
	}
	wg.Add(1)
	go func() {
		defer wg.Done()
		<-start
		for i, typ := range c.Events {
			if _, err := io.WriteString(pw, wire(typ, fmt.Sprintf("e%d", i+1))); err != nil {
				return
			}
		}
		pw.Close()
	}()
	close(start)
	err := conn.Connect()
	wg.Wait()
	if err == nil {
		return v.Failf("", "Connect returned nil")
	}

	// invariants over the log
	type cbState struct {
		subret, unsubreq, unsubret int
		lastSeq                    int
		seen                       map[int]bool
	}
	st := map[int]*cbState{}
	get := func(id int) *cbState {
		if st[id] == nil {
			st[id] = &cbState{subret: -1, unsubreq: -1, unsubret: -1, seen: map[int]bool{}}
		}
		return st[id]
	}
	witAt := map[int]int{}
	witTyp := map[int]string{}
	lastWit := 0
	for i, r := range log {
		switch r.kind {
		case "wit":
			if r.seq != lastWit+1 {
				return v.Failf("", "the witness saw event %d after event %d (stream order broken)", r.seq, lastWit)
			}
			lastWit = r.seq
			witAt[r.seq], witTyp[r.seq] = i, r.typ
		case "subret":
			get(r.cb).subret = i
		case "unsubreq":
			if s := get(r.cb); s.unsubreq < 0 {
				s.unsubreq = i
			}
		case "unsubret":
			if s := get(r.cb); s.unsubret < 0 {
				s.unsubret = i
			}
		case "inv":
			s := get(r.cb)
			typ := cbType[r.cb]
			if typ != "*" && typ != r.typ {
				return v.Failf("", "callback %d (type %q) was invoked with an event of type %q", r.cb, typ, r.typ)
			}
			if s.seen[r.seq] {
				return v.Failf("", "callback %d was invoked twice for event %d", r.cb, r.seq)
			}
			s.seen[r.seq] = true
			if r.seq <= s.lastSeq {
				return v.Failf("", "callback %d saw event %d after event %d", r.cb, r.seq, s.lastSeq)
			}
			s.lastSeq = r.seq
			if s.unsubret >= 0 && i > s.unsubret {
				return v.Failf("", "callback %d was invoked (event %d) after its unsubscribe function had returned", r.cb, r.seq)
			}
		}
	}
	if lastWit != len(c.Events) {
		return v.Failf("", "the witness saw %d of %d events", lastWit, len(c.Events))
	}
	for id, s := range st {
		end := len(log)
		if s.unsubreq >= 0 {
			end = s.unsubreq
		}
		if s.subret < 0 {
			continue
		}
		for seq, at := range witAt {
			if at > s.subret && at < end && (cbType[id] == "*" || cbType[id] == witTyp[seq]) && !s.seen[seq] {
				return v.Failf("", "callback %d (type %q) missed event %d, which was dispatched after its subscription returned and before its removal was requested", id, cbType[id], seq)
			}
		}
	}
	busy := 0
	for _, w := range c.Workers {
		subs, unsubs := 0, 0
		for _, op := range w {
			if op.Kind == "unsub" && subs > 0 {
				unsubs++
			} else if op.Kind != "unsub" {
				subs++
			}
		}
		if subs > 0 && unsubs > 0 {
			busy++
		}
	}
	v.NonTrivial = busy >= 2 && len(c.Events) >= 5
	invs := 0
	for _, r := range log {
		if r.kind == "inv" {
			invs++
		}
	}
	v.Count("worker_callback_invocations", int64(invs))
	return v
}

func TestC13Race(t *testing.T) {
	stats.Run(t, stats.Prop[C13RaceCase]{ID: "C13", Rule: ruleC13b, Gen: genC13Race, Check: checkC13Race})
}

var _ = strings.Contains

func FuzzC13(f *testing.F) {
	stats.Fuzz(f, stats.Prop[C13Case]{ID: "C13", Rule: ruleC13a, Gen: genC13, Check: checkC13})
}
