package clientsim

import (
	"bufio"
	"context"
	"errors"
	"fmt"
	"io"
	"regexp"
	"strings"
	"testing"

	sse "github.com/tmaxmax/go-sse"
	"pgregory.net/rapid"

	"verif/harness/gen"
	"verif/harness/oracle"
	"verif/harness/stats"
)

const ruleC11 = "rapid-generated scripts for a scripted http.RoundTripper under virtual time: 1..6 attempts, each a transport error | a response rejected by the validator (a 503; or, for 12% of the stream attempts, another status or one of eight Content-Type values, judged by the harness's status-only validator or - 30% of the scripts - by sse.DefaultValidator) | a stream from the SSE grammar with boosted endings (field-less last block: blank lines, comment, unknown field; in mid-line; exactly at a block end) x end kind (clean EOF | injected read error | request context cancelled while the body read is blocked, at any chunk boundary incl. mid-line | deadline) x MaxRetries (-1, 0, 1..3) x request body kind (none | NoBody | with GetBody | without GetBody | GetBody failing at its j-th call) x cancellation during a backoff wait x request context plain | carrying a cancellation cause (WithCancelCause / WithTimeoutCause), the transport then reporting context.Cause(ctx) as net/http does since Go 1.23, or ctx.Err(). Oracle: a reference walk over the script (from the doc comments of Connect/Backoff) gives the expected number of attempts, the cause passed to each OnRetry and the class of Connect's result: never nil; context done => errors.Is(ctx.Err()), not a *ConnectionError, no OnRetry after the cancellation; validator / body-reset failure => *ConnectionError at once; otherwise *ConnectionError wrapping the last attempt's cause (read error as itself, ErrUnexpectedEOF only for a clean end in mid-line, io.EOF for a clean terminated end). Non-trivial: some stream's last block is field-less, or a read error / cancellation arrives in mid-line. Distinct: FNV-64 of the JSON of the case."

func genAttempt(t *rapid.T, allowCtxEnd bool) Attempt {
	var a Attempt
	switch k := stats.Pct(t, "akind"); {
	case k < 18:
		a.Kind = "neterr"
	case k < 24:
		a.Kind = "reject"
	default:
		a.Kind = "stream"
		toks := gen.Lines.Draw(t, "stream")
		s := string(gen.Build(toks))
		// boosted endings
		switch stats.Pick(t, 8, "ending") {
		case 0:
			s += "\n"
		case 1:
			s += ": comment\n"
		case 2:
			s += "\n\n: c\n\n"
		case 3:
			s += "unknown: x\n\n"
		case 4:
			s += "data: cut in mid-li"
		case 5:
			s += "id: 7\ndata: x\n\n"
		}
		// C11 is not about the schedule: keep server retry values small, so that no scripted
		// wait comes near the (virtual) deadline used by the "deadline" ending
		s = longDigits.ReplaceAllString(s, "25")
		a.Stream = stats.B(s)
		if stats.Pct(t, "chunked") < 60 {
			n := 1 + stats.Pick(t, 4, "nchunks")
			for i := 0; i < n; i++ {
				a.Chunks = append(a.Chunks, 1+stats.Pick(t, 12, "chunk"))
			}
		}
		ends := []string{"eof", "eof", "eof", "eof", "err", "err", "err"}
		if allowCtxEnd {
			ends = append(ends, "cancel", "deadline", "cbcancel")
		}
		a.End = stats.From(t, ends, "end")
		if a.End == "cbcancel" {
			// the stream ends with an event on which the consumer cancels; then the body blocks
			// until the context is done, like a live connection
			s = strings.TrimSuffix(s, "data: cut in mid-li")
			a.Stream = stats.B(s + "\n\ndata: " + cancelMarker + "\n\n")
		}
		if a.End == "cancel" {
			a.HangMs = stats.Pick(t, 3, "hangms")
		}
		if stats.Pct(t, "readdelay") < 15 {
			a.ReadMs = 1
		}
	}
	if a.Kind == "stream" && stats.Pct(t, "emptyresp") < 6 {
		// an empty response (the handler returned without writing): the real transport hands out http.NoBody
		a.Stream, a.Chunks, a.End, a.NoBodyResp = "", nil, "eof", rapid.Bool().Draw(t, "nobodyresp")
	}
	if stats.Pct(t, "delay") < 20 {
		a.DelayMs = 1 + stats.Pick(t, 5, "delayms")
	}
	if (a.Kind == "neterr" || a.End == "err") && stats.Pct(t, "foreignctxerr") < 30 {
		a.ErrKind = stats.From(t, []string{"deadline", "canceled"}, "errkind")
	}
	if a.End == "err" && a.ErrKind == "" && stats.Pct(t, "wrapseof") < 25 {
		a.ErrKind = "wraps-eof"
	}
	return a
}

var longDigits = regexp.MustCompile(`[0-9]{4,}`)

func genC11(t *rapid.T) Script {
	var sc Script
	sc.Backoff = BackoffCfg{InitialNs: int64(1+stats.Pick(t, 5, "initms")) * 1e6, Multiplier: 1, Jitter: 0.5}
	sc.Backoff.MaxRetries = stats.From(t, []int{-1, -1, -2, -1000000, 0, 0, 1, 2, 3}, "maxretries")
	n := 1 + stats.Pick(t, 6, "nattempts")
	for i := 0; i < n; i++ {
		sc.Attempts = append(sc.Attempts, genAttempt(t, true))
	}
	sc.Body = stats.From(t, []string{"none", "none", "nobody", "getbody", "getbody", "nogetbody", "getbodyfail"}, "body")
	if sc.Body == "getbodyfail" {
		sc.GetBodyFail = stats.Pick(t, 3, "getbodyfail")
	}
	if stats.Pct(t, "cancelinwait") < 12 {
		sc.CancelInWait = 1 + stats.Pick(t, 3, "cancelinwaitk")
	}
	if stats.Pct(t, "smallbuffer") < 15 {
		// a small scanner buffer and streams of small events with at most one oversized event:
		// a stream that ends with bufio.ErrTooLong is an ordinary (retryable) end of a connection
		sc.BufMax = 48
		for i := range sc.Attempts {
			if sc.Attempts[i].Kind != "stream" {
				continue
			}
			var b strings.Builder
			n := stats.Pick(t, 5, "nsmall")
			big := stats.Pick(t, n+2, "bigat")
			for k := 0; k <= n; k++ {
				if k == big {
					b.WriteString("data: " + strings.Repeat("x", 70+stats.Pick(t, 60, "biglen")) + "\n\n")
				}
				b.WriteString(fmt.Sprintf("id: %d\ndata: e\n\n", k))
			}
			if sc.Attempts[i].End == "cbcancel" {
				b.WriteString("data: " + cancelMarker + "\n\n") // keep the event the consumer cancels on
			}
			sc.Attempts[i].Stream = stats.B(b.String())
		}
	}
	for _, a := range sc.Attempts {
		if a.End == "deadline" {
			sc.DeadlineMs = 3_600_000 // far beyond every scripted wait; only the hanging read reaches it
		}
	}
	if stats.Pct(t, "defaultvalidator") < 30 {
		sc.DefaultValidator = true
	}
	for i := range sc.Attempts {
		if a := &sc.Attempts[i]; a.Kind == "stream" && stats.Pct(t, "oddresponse") < 12 {
			if rapid.Bool().Draw(t, "oddstatus") {
				a.Status = stats.From(t, []int{204, 301, 404, 500, 503, 201}, "status")
			} else {
				a.CT = stats.From(t, []string{"text/event-stream; charset=utf-8", "text/event-stream;charset=UTF-8", "TEXT/Event-Stream", "none", "text/plain", "application/json", "text/html; charset=utf-8", "application/x-ndjson; text/events"}, "ct")
			}
		}
	}
	if stats.Pct(t, "ctxcause") < 25 {
		// a request context that carries a cancellation cause; mostly with a transport that reports
		// the cause instead of ctx.Err(), as net/http's does since Go 1.23
		sc.Cause = true
		sc.ReportCause = stats.Pct(t, "reportcause") < 75
	}
	return sc
}

// expectation is the reference walk over a script.
type expectation struct {
	attempts   int      // number of attempts the transport must see
	causes     []string // class of the error given to each OnRetry: net | eof | ueof | boom
	final      string   // class of Connect's result: ctx | reject | nogetbody | getbody | net | eof | ueof | boom
	nontrivial bool
	classes    []string
}

func streamCause(a Attempt, bufMax int) (cause string, fieldless, midline bool) {
	ref := oracle.Interpret([]byte(a.Stream), "", oracle.Connection)
	if bufMax > 0 {
		for _, b := range ref.Blocks {
			if b.End-b.Start > bufMax+8 {
				return "toolong", false, false // the scanner gives up at this block, whatever follows
			}
		}
	}
	if len(ref.Blocks) > 0 {
		last := ref.Blocks[len(ref.Blocks)-1]
		if last.Event < 0 && !ref.UnexpectedEOF {
			fieldless = true
		}
	} else if len(a.Stream) == 0 {
		fieldless = true
	}
	midline = ref.UnexpectedEOF
	switch a.End {
	case "err":
		return "boom" + a.ErrKind, fieldless, midline
	case "cancel", "deadline", "cbcancel":
		return "ctx", fieldless, midline
	}
	if ref.UnexpectedEOF {
		return "ueof", fieldless, midline
	}
	return "eof", fieldless, midline
}

func expect(sc Script) expectation {
	var e expectation
	count := 0 // consecutive retries
	getBody := 0
	for k := 0; ; k++ {
		// request reset before every attempt but the first
		if k > 0 {
			switch sc.Body {
			case "nogetbody":
				e.final = "nogetbody"
				return e
			case "getbody", "getbodyfail":
				if sc.Body == "getbodyfail" && getBody == sc.GetBodyFail {
					e.final = "getbody"
					return e
				}
				getBody++
			}
		}
		e.attempts++
		if k >= len(sc.Attempts) {
			e.final = "ctx" // the harness cancels when the script is over
			return e
		}
		a := sc.Attempts[k]
		var cause string
		if a.Kind == "stream" && sc.rejected(a) {
			e.classes = append(e.classes, fmt.Sprintf("refused-response:status=%d,ct=%q", a.Status, a.CT))
			e.final = "reject"
			return e
		}
		switch a.Kind {
		case "neterr":
			cause = "net" + a.ErrKind
			if a.ErrKind != "" {
				e.classes = append(e.classes, "foreign-context-like-error")
			}
		case "reject":
			e.final = "reject"
			return e
		default:
			count = 0 // a successful connection resets the retry count
			c, fieldless, midline := streamCause(a, sc.BufMax)
			if fieldless {
				e.nontrivial = true
				e.classes = append(e.classes, "fieldless-last-block")
			}
			if midline && (a.End == "err" || a.End == "cancel" || a.End == "deadline") {
				e.nontrivial = true
				e.classes = append(e.classes, "error-or-cancel-in-mid-line")
			}
			e.classes = append(e.classes, "end:"+a.End)
			if c == "toolong" {
				e.classes = append(e.classes, "oversized-event")
			}
			if c == "ctx" {
				e.final = "ctx"
				return e
			}
			cause = c
		}
		// retry?
		mr := sc.Backoff.MaxRetries
		if mr < 0 || (mr > 0 && count == mr) {
			e.final = cause
			return e
		}
		count++
		e.causes = append(e.causes, cause)
		if sc.CancelInWait > 0 && len(e.causes) == sc.CancelInWait {
			e.final = "ctx"
			e.classes = append(e.classes, "cancel-during-backoff-wait")
			return e
		}
	}
}

// classOf maps an error to the classes of the oracle table.
func classOf(err error, ctxErr error) []string {
	var out []string
	var ce *sse.ConnectionError
	isCE := errors.As(err, &ce)
	if err == nil {
		return []string{"nil"}
	}
	if ctxErr != nil && errors.Is(err, ctxErr) && !isCE {
		out = append(out, "ctx")
	}
	if isCE {
		switch {
		case errors.Is(err, errReject):
			out = append(out, "reject")
		case errors.Is(err, sse.ErrNoGetBody):
			out = append(out, "nogetbody")
		case errors.Is(err, errGetBody):
			out = append(out, "getbody")
		case errors.Is(err, bufio.ErrTooLong):
			out = append(out, "toolong")
		case errors.Is(err, errBoomEOF):
			out = append(out, "boomwraps-eof")
		case errors.Is(err, errNet):
			out = append(out, "net")
		case errors.Is(err, errNetDeadline):
			out = append(out, "netdeadline")
		case errors.Is(err, errNetCanceled):
			out = append(out, "netcanceled")
		case errors.Is(err, errBoomDeadline) && !errors.Is(err, sse.ErrUnexpectedEOF):
			out = append(out, "boomdeadline")
		case errors.Is(err, errBoomCanceled) && !errors.Is(err, sse.ErrUnexpectedEOF):
			out = append(out, "boomcanceled")
		case errors.Is(err, errBoom) && !errors.Is(err, sse.ErrUnexpectedEOF):
			out = append(out, "boom")
		case errors.Is(err, sse.ErrUnexpectedEOF):
			out = append(out, "ueof")
		case errors.Is(err, io.EOF):
			out = append(out, "eof")
		}
	}
	if len(out) == 0 {
		out = append(out, fmt.Sprintf("other(%T: %v)", err, err))
	}
	return out
}

func has(cl []string, c string) bool {
	for _, x := range cl {
		if x == c {
			return true
		}
	}
	return false
}

func checkC11(t *testing.T, sc Script) *stats.Verdict {
	v := &stats.Verdict{Size: len(sc.Attempts)}
	exp := expect(sc)
	tr := run(t, sc, nil)
	v.NonTrivial = exp.nontrivial
	for _, c := range exp.classes {
		v.Class(c)
	}
	v.Class(fmt.Sprintf("maxretries:%d", sc.Backoff.MaxRetries))
	v.Class("final:" + exp.final)
	desc := func() string { return fmt.Sprintf("script %+v\nexpected %+v\ntrace:\n%s", sc, exp, tr) }
	if tr.panicked != nil {
		return v.Failf("panic", "panic: %v\n%s", tr.panicked, desc())
	}
	if tr.final == nil {
		return v.Failf("connect-nil", "Connect returned nil\n%s", desc())
	}
	if len(tr.attempts) != exp.attempts {
		return v.Failf("", "the transport saw %d attempts, the reference walk gives %d\n%s", len(tr.attempts), exp.attempts, desc())
	}
	var ctxErr error
	if exp.final == "ctx" {
		ctxErr = tr.ctxErrAtEnd
		if ctxErr == nil {
			return v.Failf("final:ctx", "Connect returned %v although its context is still alive and retries are not exhausted (the reference walk ends with the script's cancellation)\n%s", tr.final, desc())
		}
		if !errors.Is(ctxErr, context.Canceled) && !errors.Is(ctxErr, context.DeadlineExceeded) {
			return v.Failf("", "harness: odd ctx error %v", ctxErr)
		}
	}
	got := classOf(tr.final, ctxErr)
	if !has(got, exp.final) {
		return v.Failf("final:"+exp.final, "Connect returned %v (class %v), want class %q\n%s", tr.final, got, exp.final, desc())
	}
	if len(tr.retries) != len(exp.causes) {
		return v.Failf("", "OnRetry was called %d times, want %d\n%s", len(tr.retries), len(exp.causes), desc())
	}
	for i, r := range tr.retries {
		if c := classOf(r.err, nil); !has(c, exp.causes[i]) {
			return v.Failf("", "OnRetry #%d received %v (class %v), want class %q\n%s", i, r.err, c, exp.causes[i], desc())
		}
	}
	if tr.onRetryAfterCancel {
		return v.Failf("", "OnRetry was called after the request context had been cancelled\n%s", desc())
	}
	return v
}

func TestC11(t *testing.T) {
	stats.Run(t, stats.Prop[Script]{ID: "C11", Rule: ruleC11, Gen: genC11, Check: checkC11})
}

func FuzzC11(f *testing.F) {
	stats.Fuzz(f, stats.Prop[Script]{ID: "C11", Rule: ruleC11, Gen: genC11, Check: checkC11})
}
