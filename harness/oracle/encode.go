package oracle

import (
	"strconv"
	"strings"
	"time"
)

// Chunk is one AppendData / AppendComment argument.
type Chunk struct {
	Comment bool
	Text    string
}

// Msg is the model of a Message built through the public API.
type Msg struct {
	IDSet   bool
	ID      string
	TypeSet bool
	Type    string
	Retry   time.Duration
	Chunks  []Chunk
}

// SplitLines is the documented line model of AppendData/AppendComment: every CR, LF or
// CRLF is one line break; a trailing break adds no empty line; "" has no lines.
func SplitLines(s string) []string {
	var out []string
	for s != "" {
		i := strings.IndexAny(s, "\r\n")
		if i < 0 {
			out = append(out, s)
			break
		}
		out = append(out, s[:i])
		if s[i] == '\r' && i+1 < len(s) && s[i+1] == '\n' {
			i++
		}
		s = s[i+1:]
	}
	return out
}

// Encode is the wire form written from the documentation of Message.
func Encode(m Msg) string {
	var b strings.Builder
	if m.IDSet {
		b.WriteString("id: " + m.ID + "\n")
	}
	if m.TypeSet {
		b.WriteString("event: " + m.Type + "\n")
	}
	if ms := m.Retry.Milliseconds(); ms >= 1 {
		b.WriteString("retry: " + strconv.FormatInt(ms, 10) + "\n")
	}
	for _, c := range m.Chunks {
		for _, l := range SplitLines(c.Text) {
			if c.Comment {
				b.WriteString(": " + l + "\n")
			} else {
				b.WriteString("data: " + l + "\n")
			}
		}
	}
	if b.Len() > 0 {
		b.WriteString("\n")
	}
	return b.String()
}

// DataLines returns the data lines of the model in call order.
func (m Msg) DataLines() []string {
	var out []string
	for _, c := range m.Chunks {
		if !c.Comment {
			out = append(out, SplitLines(c.Text)...)
		}
	}
	return out
}

// CommentLines returns the comment lines of the model in call order.
func (m Msg) CommentLines() []string {
	var out []string
	for _, c := range m.Chunks {
		if c.Comment {
			out = append(out, SplitLines(c.Text)...)
		}
	}
	return out
}
