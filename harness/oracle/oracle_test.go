package oracle

import (
	"reflect"
	"testing"
)

func evs(r Result) [][3]string {
	var out [][3]string
	for _, e := range r.Events {
		out = append(out, [3]string{e.LastEventID, e.Type, e.Data})
	}
	return out
}

// Examples from the WHATWG text and literals from go-sse's own tests.
func TestInterpretExamples(t *testing.T) {
	for _, tc := range []struct {
		in   string
		mode Mode
		want [][3]string
		ueof bool
	}{
		{"data: YHOO\ndata: +2\ndata: 10\n\n", Strict, [][3]string{{"", "", "YHOO\n+2\n10"}}, false},
		{": test stream\n\ndata: first event\nid: 1\n\ndata:second event\nid\n\ndata:  third event\n\n", Strict,
			[][3]string{{"1", "", "first event"}, {"", "", "second event"}, {"", "", " third event"}}, false},
		{"data\n\ndata\ndata\n\ndata:", Strict, [][3]string{{"", "", ""}, {"", "", "\n"}}, true},
		{"data:test\n\ndata: test\n\n", Strict, [][3]string{{"", "", "test"}, {"", "", "test"}}, false},
		{"\xEF\xBB\xBFdata: x\r\rdata: y\r\n\r\n", Read, [][3]string{{"", "", "x"}, {"", "", "y"}}, false},
		{"\n\xEF\xBB\xBFdata: x\n\n", Read, nil, false},
		{"id: 5\n\nevent: a\n\ndata: q\n", Read, [][3]string{{"5", "", ""}, {"5", "a", ""}, {"5", "", "q"}}, false},
		{"id: 5\n\nevent: a\n\ndata: q", Read, [][3]string{{"5", "", ""}, {"5", "a", ""}}, true},
		{"retry: 10\n\n", Read, nil, false},
		{"retry: 10\n\n", Connection, [][3]string{{"", "", ""}}, false},
		{"retry: +10\n\nretry: -0\n\nretry:\n\nretry: 1x\n\n", Connection, nil, false},
		{"id: a\x00b\n\ndata: x\n\n", Read, [][3]string{{"", "", "x"}}, false},
		{"id: 1\ndata: x\n\nid\ndata: y\n\n", Read, [][3]string{{"1", "", "x"}, {"", "", "y"}}, false},
		{"id: 1\n\n", Strict, nil, false},
	} {
		r := Interpret([]byte(tc.in), "", tc.mode)
		if got := evs(r); !reflect.DeepEqual(got, tc.want) || r.UnexpectedEOF != tc.ueof {
			t.Errorf("Interpret(%q, %d) = %q ueof=%v, want %q ueof=%v", tc.in, tc.mode, got, r.UnexpectedEOF, tc.want, tc.ueof)
		}
	}
	// strict: last event ID persists although the id-only block dispatched nothing
	r := Interpret([]byte("id: 7\n\ndata: x\n\n"), "", Strict)
	if len(r.Events) != 1 || r.Events[0].LastEventID != "7" {
		t.Errorf("strict id persistence: %+v", r.Events)
	}
}

func TestBlocks(t *testing.T) {
	r := Interpret([]byte("\n\ndata: a\n\n\n: c\n\ndata: b\n"), "", Read)
	want := []Block{{0, 11, 0, true}, {11, 17, -1, true}, {17, 25, 1, false}}
	if !reflect.DeepEqual(r.Blocks, want) {
		t.Errorf("blocks %+v want %+v", r.Blocks, want)
	}
}

func TestSplitLinesAndEncode(t *testing.T) {
	for in, want := range map[string][]string{
		"":            nil,
		"a":           {"a"},
		"a\n":         {"a"},
		"a\r\nb\rc\n": {"a", "b", "c"},
		"\n":          {""},
		"\r\n\r":      {"", ""},
		"a\n\nb":      {"a", "", "b"},
	} {
		if got := SplitLines(in); !reflect.DeepEqual(got, want) {
			t.Errorf("SplitLines(%q)=%q want %q", in, got, want)
		}
	}
	m := Msg{IDSet: true, ID: "1", TypeSet: true, Type: "t", Retry: 1500000000, Chunks: []Chunk{{false, "a\nb"}, {true, "c"}}}
	if got, want := Encode(m), "id: 1\nevent: t\nretry: 1500\ndata: a\ndata: b\n: c\n\n"; got != want {
		t.Errorf("Encode=%q want %q", got, want)
	}
	if Encode(Msg{Retry: 999999}) != "" {
		t.Errorf("sub-ms retry must write nothing")
	}
}

func TestBOMOnlyFirstLineOpensABlock(t *testing.T) {
	r := Interpret([]byte("\xEF\xBB\xBF\n\ndata: x\n\n"), "", Read)
	want := []Block{{0, 5, -1, true}, {5, 14, 0, true}}
	if !reflect.DeepEqual(r.Blocks, want) || len(r.Events) != 1 || r.Events[0].Data != "x" {
		t.Errorf("blocks %+v events %+v", r.Blocks, r.Events)
	}
	// a stream that is just a BOM is an empty stream
	r = Interpret([]byte("\xEF\xBB\xBF"), "", Read)
	if r.UnexpectedEOF || len(r.Events) != 0 {
		t.Errorf("a lone BOM is an empty stream: %+v", r)
	}
	r = Interpret([]byte("\xEF\xBB\xBFx"), "", Read)
	if !r.UnexpectedEOF {
		t.Errorf("BOM + unterminated line: %+v", r)
	}
}
