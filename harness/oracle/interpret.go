// Package oracle holds the reference models the checks compare go-sse with. Everything here
// is written from the WHATWG text ("9.2.6 Interpreting an event stream") and from the
// documentation of go-sse's public API; nothing in this package calls the code under test.
package oracle

import "bytes"

// Mode selects which of go-sse's documented adaptations of the WHATWG algorithm apply.
type Mode int

const (
	// Strict is the unmodified WHATWG algorithm (except that Type is reported as it is in
	// the type buffer, i.e. "" instead of "message", so results are comparable): an event
	// is dispatched only when the data buffer is non-empty, pending data is discarded at
	// the end of the stream.
	Strict Mode = iota
	// Read is sse.Read: dispatch when any of data/event/id was seen; a pending event whose
	// last line was terminated is dispatched at a clean end of stream.
	Read
	// Connection is sse.Connection: like Read, and an accepted retry field also makes the
	// event dispatchable.
	Connection
)

// Event is one dispatched event.
type Event struct {
	LastEventID string
	Type        string
	Data        string
	// End is the offset (in the original stream, BOM included) just after the line whose
	// processing dispatched the event; for an event flushed at the end of the stream it
	// is the stream length.
	End int
}

// Retry is one accepted retry field.
type Retry struct {
	Millis uint64
	// Events is the number of events dispatched before the field was processed.
	Events int
}

// Block is a maximal piece of the stream that the scanner has to buffer as a whole:
// the blank lines preceding an event's lines, the lines, and the terminating blank line.
type Block struct {
	Start, End int
	// Event is the index of the event dispatched by the block's blank line, -1 if none.
	Event int
	// Terminated is false for the last block when the stream ended before its blank line.
	Terminated bool
}

// Result is the reference interpretation of a whole stream.
type Result struct {
	Events []Event
	// UnexpectedEOF is true when the stream ended in an unterminated line.
	UnexpectedEOF bool
	// FinalLastEventID is the value of the last event ID buffer after the last DISPATCHED event
	// (what a reconnecting client has to present).
	FinalLastEventID string
	Retries          []Retry
	Blocks           []Block
	// Lines is the number of lines processed (terminated ones).
	Lines int
}

var bom = []byte{0xEF, 0xBB, 0xBF}

func onlyDigits(s []byte) bool {
	if len(s) == 0 {
		return false
	}
	for _, c := range s {
		if c < '0' || c > '9' {
			return false
		}
	}
	return true
}

// Interpret runs the reference algorithm over a complete stream.
func Interpret(stream []byte, lastEventID string, mode Mode) Result {
	var res Result
	res.FinalLastEventID = lastEventID
	pos := 0
	// "Streams must be decoded using the UTF-8 decode algorithm", which strips ONE leading
	// BOM - at offset 0 and nowhere else. Bytes are otherwise not decoded (DESIGN 6.1).
	// The BOM is removed from the CONTENT of the first line only; for the block table (what a
	// scanner has to buffer as a whole) the first line keeps its raw bytes, so a first line
	// that consists of nothing but the BOM is a non-blank line there.
	hasBOM := bytes.HasPrefix(stream, bom)
	idBuf := lastEventID
	var data []byte
	typ := ""
	dirty := false   // go-sse: something dispatchable was seen
	hasData := false // strict: data buffer non-empty (a data field was seen)

	blockStart := 0 // includes a BOM
	sawNonBlank := false

	dispatch := func(end int) int {
		idx := -1
		ok := dirty
		if mode == Strict {
			ok = hasData
		}
		if ok {
			d := data
			if len(d) > 0 && d[len(d)-1] == '\n' {
				d = d[:len(d)-1]
			}
			res.Events = append(res.Events, Event{LastEventID: idBuf, Type: typ, Data: string(d), End: end})
			res.FinalLastEventID = idBuf
			idx = len(res.Events) - 1
		}
		if mode == Strict || ok {
			data = nil
			typ = ""
			dirty = false
			hasData = false
		}
		return idx
	}

	for pos < len(stream) {
		// find the end of the line
		i := pos
		for i < len(stream) && stream[i] != '\n' && stream[i] != '\r' {
			i++
		}
		if i == len(stream) && pos == 0 && hasBOM && i == len(bom) {
			break // the stream is just a BOM: an empty stream, which ends cleanly
		}
		if i == len(stream) {
			// unterminated last line: "the incomplete event is not dispatched"
			res.UnexpectedEOF = true
			res.Blocks = append(res.Blocks, Block{Start: blockStart, End: len(stream), Event: -1})
			return res
		}
		line := stream[pos:i]
		rawBlank := len(line) == 0
		if pos == 0 && hasBOM {
			line = line[len(bom):]
		}
		next := i + 1
		if stream[i] == '\r' && next < len(stream) && stream[next] == '\n' {
			next++
		}
		pos = next
		res.Lines++

		if len(line) == 0 && !rawBlank {
			// the BOM-only first line: empty for the interpretation (a dispatch with nothing
			// pending), but it opens a block
			sawNonBlank = true
			if mode == Strict {
				dispatch(pos)
			}
			continue
		}
		if len(line) == 0 {
			if sawNonBlank {
				idx := dispatch(pos)
				res.Blocks = append(res.Blocks, Block{Start: blockStart, End: pos, Event: idx, Terminated: true})
				blockStart = pos
				sawNonBlank = false
			} else {
				// blank line with nothing pending: dispatch is a no-op in every mode
				if mode == Strict {
					dispatch(pos)
				}
			}
			continue
		}
		sawNonBlank = true
		if line[0] == ':' {
			continue
		}
		var name, value []byte
		if c := bytes.IndexByte(line, ':'); c >= 0 {
			name, value = line[:c], line[c+1:]
			if len(value) > 0 && value[0] == ' ' {
				value = value[1:]
			}
		} else {
			name = line
		}
		switch string(name) {
		case "event":
			typ = string(value)
			dirty = true
		case "data":
			data = append(data, value...)
			data = append(data, '\n')
			dirty = true
			hasData = true
		case "id":
			if bytes.IndexByte(value, 0) < 0 {
				idBuf = string(value)
				dirty = true
			}
		case "retry":
			if onlyDigits(value) && len(value) <= 18 {
				var n uint64
				for _, c := range value {
					n = n*10 + uint64(c-'0')
				}
				res.Retries = append(res.Retries, Retry{Millis: n, Events: len(res.Events)})
				if mode == Connection {
					dirty = true
				}
			}
		}
	}
	// Clean end: every line was terminated.
	if sawNonBlank || blockStart < len(stream) {
		idx := -1
		if mode != Strict && dirty {
			idx = dispatch(len(stream))
		}
		res.Blocks = append(res.Blocks, Block{Start: blockStart, End: len(stream), Event: idx})
	}
	return res
}
