package replayers

import (
	"testing"

	"verif/harness/stats"
)

const ruleC08 = "rapid-generated histories of Put (valid/invalid) and Replay (presented ID = k-th buffered | newest | oldest | evicted | never issued | unset; topic sets; Send/Flush fault) on a FiniteReplayer (N in 2..9, both ID modes), compared step by step with a last-N FIFO model, plus an invariant probe (replay from the oldest buffered ID with all topics) after every step (in 30% of the cases only after the last step: the probe is itself a successful Replay). Never-issued IDs include huge numbers at the int64/uint64 limits and 20-digit numbers just above 2^64; topic sets are 1..3 of {default,a,b,c} or, 20% of the time, 1..10 of a ten-topic alphabet in either order. Non-trivial: more than N successful puts (the ring wrapped) and at least one Replay presenting a buffered, non-newest ID that had to send something. Distinct: FNV-64 of the JSON of the case."

func checkC08(t *testing.T, c Case) *stats.Verdict {
	v := &stats.Verdict{Size: len(c.Ops)}
	w, err := newWorld(c, v)
	if err != nil {
		return v.Failf("constructor", "NewFiniteReplayer(%d,%v): %v", c.N, c.Auto, err)
	}
	for i := 0; i < c.Prefill; i++ {
		f := w.put(Op{Kind: "put", Topics: prefillTopics(i)})
		if f == "" {
			f = w.probe(false)
		}
		if f != "" {
			return v.Failf("", "prefill put %d: %s", i, f)
		}
	}
	for i, op := range c.Ops {
		var f string
		switch op.Kind {
		case "put":
			f = w.put(op)
			if f == "" && w.puts > c.N && w.puts%c.N == 0 {
				v.Class("write-index-wrapped-to-0")
			}
		case "badput":
			f = w.badput(op)
		case "replay":
			f = w.replay(op, false)
		}
		if f == "" {
			f = w.probe(i == len(c.Ops)-1)
		}
		if f != "" {
			return v.Failf("", "op %d (%s): %s", i, op.Kind, f)
		}
	}
	wrapped := w.puts > c.N
	if wrapped {
		v.Class("wrapped")
	}
	nonEmpty := false
	for _, cl := range v.Classes {
		if cl == "replay-nonempty" {
			nonEmpty = true
		}
	}
	v.NonTrivial = wrapped && nonEmpty
	return v
}

func TestC08(t *testing.T) {
	stats.Run(t, stats.Prop[Case]{ID: "C08", Rule: ruleC08, Gen: genFiniteCase, Check: checkC08})
}

func FuzzC08(f *testing.F) {
	stats.Fuzz(f, stats.Prop[Case]{ID: "C08", Rule: ruleC08, Gen: genFiniteCase, Check: checkC08})
}
