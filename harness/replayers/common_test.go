package replayers

import (
	"errors"
	"fmt"
	"strings"
	"testing"

	sse "github.com/tmaxmax/go-sse"
	"pgregory.net/rapid"

	"verif/harness/stats"
)

func TestMain(m *testing.M) { stats.Main(m) }

var allTopics = []string{"", "a", "b", "c"}

// wideTopics is the alphabet of the occasional wide topic set (subscriptions and messages
// with up to ten topics, in either order).
var wideTopics = []string{"", "a", "b", "c", "d", "e", "f", "g", "h", "i"}

var genTopics = rapid.Custom(func(t *rapid.T) []string {
	if stats.Pct(t, "widetopics") >= 80 {
		mask := 1 + stats.Pick(t, 1<<len(wideTopics)-1, "widemask")
		var out []string
		for i, tp := range wideTopics {
			if mask&(1<<i) != 0 {
				out = append(out, tp)
			}
		}
		if rapid.Bool().Draw(t, "descending") {
			for i, j := 0, len(out)-1; i < j; i, j = i+1, j-1 {
				out[i], out[j] = out[j], out[i]
			}
		}
		return out
	}
	// 1..3 distinct topics out of {DefaultTopic, a, b, c}; order matters to nobody.
	mask := rapid.IntRange(1, 14).Draw(t, "topicmask")
	var out []string
	for i, tp := range allTopics {
		if mask&(1<<i) != 0 && len(out) < 3 {
			out = append(out, tp)
		}
	}
	return out
})

func intersects(a, b []string) bool {
	for _, x := range a {
		for _, y := range b {
			if x == y {
				return true
			}
		}
	}
	return false
}

var (
	errSend  = errors.New("harness: injected send failure")
	errFlush = errors.New("harness: injected flush failure")
)

// sent is one record of the recording writer.
type sent struct {
	Flush  bool
	Serial int
	ID     string
	IDSet  bool
	Err    error
}

// recWriter is a recording, fault-injecting sse.MessageWriter.
type recWriter struct {
	log       []sent
	sends     int
	failSend  int // index of the Send call that fails (-1: none)
	failFlush bool
}

func (w *recWriter) Send(m *sse.Message) error {
	i := w.sends
	w.sends++
	r := sent{Serial: serialOf(m), ID: m.ID.String(), IDSet: m.ID.IsSet()}
	if i == w.failSend {
		r.Err = errSend
	}
	w.log = append(w.log, r)
	return r.Err
}

func (w *recWriter) Flush() error {
	r := sent{Flush: true}
	if w.failFlush {
		r.Err = errFlush
	}
	w.log = append(w.log, r)
	return r.Err
}

func newMsg(serial int) *sse.Message {
	m := &sse.Message{}
	m.AppendData(fmt.Sprintf("s%d", serial))
	return m
}

// serialOf extracts the serial number a harness message carries in its data.
func serialOf(m *sse.Message) int {
	if m == nil {
		return -1
	}
	s := m.String()
	i := strings.Index(s, "data: s")
	if i < 0 {
		return -1
	}
	n := 0
	ok := false
	for _, c := range s[i+7:] {
		if c < '0' || c > '9' {
			break
		}
		n = n*10 + int(c-'0')
		ok = true
	}
	if !ok {
		return -1
	}
	return n
}

func fmtLog(l []sent) string {
	var b strings.Builder
	for _, r := range l {
		if r.Flush {
			fmt.Fprintf(&b, "[flush err=%v]", r.Err)
		} else {
			fmt.Fprintf(&b, "[send s%d id=%q err=%v]", r.Serial, r.ID, r.Err)
		}
	}
	return b.String()
}
