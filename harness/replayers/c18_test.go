package replayers

import (
	"fmt"
	"runtime"
	"strconv"
	"testing"
	"time"
	"weak"

	sse "github.com/tmaxmax/go-sse"

	"verif/harness/stats"
)

const ruleC18 = "rapid-generated Put/Replay/GC/advance histories (same generators as C08/C09, both replayers, both ID modes); every message handed to Put (and the copy Put returns with automatic IDs) is tracked only through weak pointers created inside a noinline helper; at checkpoints (after every collection that must have removed something, after wraps, and at the end) the harness forces two garbage collections and requires every evicted (finite) or expired-and-collected (valid) message to be unreachable, while the newest stays reachable. Non-trivial: at least one message was required dead at a checkpoint after the ring wrapped (finite) or after the buffer both grew and shrank (valid). Distinct: FNV-64 of the JSON of the case."

type tracked struct {
	serial int
	stored weak.Pointer[sse.Message] // what the replayer keeps (the clone with automatic IDs)
	given  weak.Pointer[sse.Message] // what the caller passed in
	put    time.Time
}

//go:noinline
func putTracked(rep sse.Replayer, serial int, id *string, topics []string) (tracked, error) {
	msg := newMsg(serial)
	if id != nil {
		msg.ID = sse.ID(*id)
	}
	got, err := rep.Put(msg, topics)
	if err != nil {
		return tracked{}, err
	}
	return tracked{serial: serial, stored: weak.Make(got), given: weak.Make(msg)}, nil
}

//go:noinline
func replayDiscard(rep sse.Replayer, id sse.EventID, topics []string, failSend int, failFlush bool) error {
	return rep.Replay(sse.Subscription{Client: &recWriter{failSend: failSend, failFlush: failFlush}, LastEventID: id, Topics: topics})
}

func forceGC() {
	runtime.GC()
	runtime.GC()
}

func checkC18(t *testing.T, c Case) *stats.Verdict {
	v := &stats.Verdict{Size: len(c.Ops) + c.Prefill}
	w, err := newWorld(c, v)
	if err != nil {
		return v.Failf("constructor", "constructor: %v", err)
	}
	m := w.m
	var tr []tracked
	sh := &shadow{}
	gci := time.Duration(0)
	if c.Kind == "valid" {
		gci = c.gcInterval()
	}
	// mustBeDead[i]: tracked message i has been evicted (finite) / was expired at a
	// collection that the statement says must have happened (valid).
	var mustBeDead []bool
	// When must a Put collect? "after at least a GCInterval period passed" can be read as
	// "since the last put-triggered collection" (readA, what the code tracks) or as "since
	// the last collection of any kind" (readB). Both are tracked independently and death is
	// required only at puts where both readings collect (DESIGN 6.5), so neither reading
	// raises an alarm.
	var lastA, lastB time.Time
	started := false
	deadChecked := 0

	markExpired := func() int {
		n := 0
		for i := range tr {
			if !mustBeDead[i] && !tr[i].put.Add(m.ttl).After(m.now) {
				mustBeDead[i] = true
				n++
			}
		}
		return n
	}
	checkpoint := func(where string) string {
		forceGC()
		v.Count("checkpoints", 1)
		for i := range tr {
			if mustBeDead[i] {
				if tr[i].stored.Value() != nil {
					return fmt.Sprintf("%s: message s%d is still reachable through the replayer although it was %s (model %s)", where, tr[i].serial, map[string]string{"finite": "evicted (older than the last N puts)", "valid": "expired and a collection has run"}[c.Kind], m.describe())
				}
				if !c.Auto && tr[i].given.Value() != nil {
					return fmt.Sprintf("%s: caller's message s%d still reachable", where, tr[i].serial)
				}
				deadChecked++
			}
		}
		if len(tr) > 0 {
			last := len(tr) - 1
			if !mustBeDead[last] && (c.Kind == "finite" || tr[last].put.Add(m.ttl).After(m.now)) && tr[last].stored.Value() == nil {
				return fmt.Sprintf("%s: newest message s%d is not reachable: the observation is broken", where, tr[last].serial)
			}
		}
		return ""
	}
	putCollects := func() bool {
		if !started {
			started = true
			lastA, lastB = m.now, m.now
			return false
		}
		a := gci > 0 && m.now.Sub(lastA) >= gci
		b := gci > 0 && m.now.Sub(lastB) >= gci
		if a {
			lastA = m.now
		}
		if b {
			lastB = m.now
		}
		if a != b {
			v.Count("lenient_put_collection_readings_differ", 1)
		}
		return a && b
	}
	doPut := func(topics []string) string {
		serial := m.attempts
		m.attempts++
		var idp *string
		id := ""
		if c.Auto {
			id = strconv.Itoa(m.nextAuto)
		} else {
			id = fmt.Sprintf("m%d", serial)
			if len(m.entries) == c.EmptyIDSerial {
				id = ""
			}
			idp = &id
		}
		must := false
		if c.Kind == "valid" {
			sh.beforePut(m, gci)
			must = putCollects()
		}
		trk, err := putTracked(w.rep, serial, idp, topics)
		if err != nil {
			return fmt.Sprintf("valid Put(s%d) rejected: %v", serial, err)
		}
		trk.put = m.now
		m.entries = append(m.entries, entry{serial, id, topics, m.now})
		m.nextAuto++
		w.puts++
		tr = append(tr, trk)
		mustBeDead = append(mustBeDead, false)
		if c.Kind == "valid" {
			sh.stored()
			if must && markExpired() > 0 {
				v.Class("put-triggered-collection")
				return checkpoint(fmt.Sprintf("after Put(s%d) that had to collect", serial))
			}
			return ""
		}
		if len(tr) > c.N {
			mustBeDead[len(tr)-1-c.N] = true
			if w.puts%c.N == 0 || (c.N < 10 && w.puts%3 == 0) || w.puts == c.N+1 {
				return checkpoint(fmt.Sprintf("after Put(s%d)", serial))
			}
		}
		return ""
	}
	step := func(op Op) string {
		switch op.Kind {
		case "put":
			return doPut(op.Topics)
		case "badput":
			if c.Kind == "valid" && op.Bad == 1 {
				sh.beforePut(m, gci)
				putCollects() // may collect, need not
			}
			return w.badput(op)
		case "replay":
			id, _, _ := m.presented(op)
			_ = replayDiscard(w.rep, id, op.Topics, op.FailSend, op.FailFlush)
		case "gc":
			w.val.GC()
			sh.collect(m)
			if !started {
				// no Put yet: nothing stored, and both readings start at the first Put
			} else {
				lastB = m.now
			}
			if markExpired() > 0 {
				v.Class("explicit-collection")
				return checkpoint("after GC()")
			}
		case "advance":
			m.now = m.now.Add(time.Duration(op.Dt) * c.tickOf())
		}
		return ""
	}
	for i := 0; i < c.Prefill; i++ {
		if f := step(Op{Kind: "put", Topics: prefillTopics(i)}); f != "" {
			return v.Failf("", "prefill put %d: %s", i, f)
		}
	}
	for i, op := range c.Ops {
		if f := step(op); f != "" {
			return v.Failf("", "op %d (%s): %s", i, op.Kind, f)
		}
	}
	if f := checkpoint("at the end"); f != "" {
		return v.Failf("", "%s", f)
	}
	if c.Kind == "finite" {
		alive := 0
		for i := range tr {
			if tr[i].stored.Value() != nil {
				alive++
			}
		}
		if alive > c.N {
			return v.Failf("", "finite replayer of capacity %d keeps %d messages reachable", c.N, alive)
		}
		v.NonTrivial = deadChecked > 0 && w.puts > c.N
		v.Class("finite")
	} else {
		v.NonTrivial = deadChecked > 0 && sh.grew && sh.shrank
		v.Class("valid")
		if sh.grew {
			v.Class("buffer-grew")
		}
		if sh.shrank {
			v.Class("buffer-shrank")
		}
	}
	v.Count("dead_messages_verified", int64(deadChecked))
	runtime.KeepAlive(w)
	return v
}

func TestC18(t *testing.T) {
	stats.Run(t, stats.Prop[Case]{ID: "C18", Rule: ruleC18, Gen: genC18Case, Check: checkC18})
}

func FuzzC18(f *testing.F) {
	stats.Fuzz(f, stats.Prop[Case]{ID: "C18", Rule: ruleC18, Gen: genC18Case, Check: checkC18})
}
