package replayers

import (
	"errors"
	"fmt"
	"math"
	"math/big"
	"strconv"
	"time"

	sse "github.com/tmaxmax/go-sse"
	"pgregory.net/rapid"

	"verif/harness/stats"
)

// ---------------------------------------------------------------------------------------
// Case: a plain-data history for a FiniteReplayer or a ValidReplayer.
// Indexes in operations are resolved against the model at run time (modulo what exists),
// so every generated history is valid and the whole thing shrinks as one value.
// ---------------------------------------------------------------------------------------

type Op struct {
	Kind      string   `json:"kind"`             // put | badput | replay | gc | advance
	Topics    []string `json:"topics,omitempty"` // put: message topics; replay: subscription topics
	Bad       int      `json:"bad,omitempty"`    // badput: 0 no topics, 1 wrong ID mode, 2 both
	IDKind    string   `json:"idkind,omitempty"` // replay: buf | newest | oldest | evicted | never | unset
	K         int      `json:"k,omitempty"`      // replay: which buffered/evicted/never-issued ID
	FailSend  int      `json:"failsend"`         // replay: index of the failing Send (-1 none)
	FailFlush bool     `json:"failflush,omitempty"`
	Dt        int      `json:"dt,omitempty"` // advance: ticks
}

type Case struct {
	Kind          string `json:"kind"` // finite | valid
	N             int    `json:"n,omitempty"`
	Auto          bool   `json:"auto"`
	TTL           int    `json:"ttl,omitempty"`         // ticks
	GCInterval    int    `json:"gcinterval,omitempty"`  // ticks; -1: keep the default (TTL/4)
	EmptyIDSerial int    `json:"emptyid"`               // manual IDs: this put carries the (valid) empty ID; -1 none
	Prefill       int    `json:"prefill,omitempty"`     // number of valid puts performed before Ops (topics cycle deterministically)
	NsTicks       bool   `json:"nsticks,omitempty"`     // valid: one tick is a nanosecond instead of a millisecond (TTL and GCInterval down to 1ns)
	SparseProbe   bool   `json:"sparseprobe,omitempty"` // the invariant probe (itself a successful Replay, so an observation that can reset replayer state) runs only after the last step instead of after every step
	Ops           []Op   `json:"ops"`
}

const tick = time.Millisecond

// tickOf returns the duration of one tick of a case.
func (c Case) tickOf() time.Duration {
	if c.NsTicks {
		return time.Nanosecond
	}
	return tick
}

var t0 = time.Unix(1_700_000_000, 0)

func genOp(valid bool, ttl int) *rapid.Generator[Op] {
	return rapid.Custom(func(t *rapid.T) Op {
		w := stats.Pct(t, "opkind")
		if valid {
			// remap so that clock advances and collections are frequent enough to expire,
			// collect and shrink: put 38, badput 5, replay 25, gc 12, advance 20
			switch {
			case w < 38:
				w = 0
			case w < 43:
				w = 45
			case w < 68:
				w = 52
			case w < 80:
				w = 80
			default:
				w = 88
			}
		}
		switch {
		case w < 45:
			return Op{Kind: "put", Topics: genTopics.Draw(t, "topics"), FailSend: -1}
		case w < 52:
			return Op{Kind: "badput", Topics: genTopics.Draw(t, "topics"), Bad: rapid.IntRange(0, 2).Draw(t, "bad"), FailSend: -1}
		case w < 80 || !valid:
			op := Op{Kind: "replay", Topics: genTopics.Draw(t, "topics"), FailSend: -1}
			k := stats.Pct(t, "idkind")
			switch {
			case k < 40:
				op.IDKind = "buf"
			case k < 55:
				op.IDKind = "newest"
			case k < 65:
				op.IDKind = "oldest"
			case k < 78:
				op.IDKind = "evicted"
			case k < 92:
				op.IDKind = "never"
			default:
				op.IDKind = "unset"
			}
			op.K = rapid.IntRange(0, 20).Draw(t, "k")
			if rapid.IntRange(0, 3).Draw(t, "fault") == 0 {
				if rapid.Bool().Draw(t, "flushfault") {
					op.FailFlush = true
				} else {
					op.FailSend = rapid.IntRange(0, 4).Draw(t, "failsend")
				}
			}
			return op
		case w < 88:
			return Op{Kind: "gc", FailSend: -1}
		default:
			return Op{Kind: "advance", Dt: rapid.OneOf(rapid.IntRange(0, 2), rapid.IntRange(max(ttl-1, 0), ttl+1), rapid.IntRange(0, 2*ttl+2)).Draw(t, "dt"), FailSend: -1}
		}
	})
}

func genFiniteCase(t *rapid.T) Case {
	c := Case{Kind: "finite", EmptyIDSerial: -1}
	switch k := stats.Pct(t, "nkind"); {
	case k < 25:
		c.N = 2 + stats.Pick(t, 2, "n")
	case k < 85:
		c.N = 2 + stats.Pick(t, 8, "n")
	default:
		// beyond small rings: capacities around and between powers of two
		c.N = stats.From(t, []int{15, 16, 17, 20, 31, 32, 33, 48, 63, 65, 100}, "nbig")
	}
	c.Auto = rapid.Bool().Draw(t, "auto")
	if !c.Auto && rapid.IntRange(0, 3).Draw(t, "useEmptyID") == 0 {
		c.EmptyIDSerial = rapid.IntRange(0, 2*c.N).Draw(t, "emptyid")
	}
	c.Prefill = stats.Pick(t, 3*c.N+1, "prefill")
	minOps := 1 + stats.Pick(t, min(3*c.N, 30), "minops")
	c.Ops = rapid.SliceOfN(genOp(false, 0), minOps, min(6*c.N+10, 70)).Draw(t, "ops")
	c.SparseProbe = stats.Pct(t, "sparseprobe") >= 70
	return c
}

func genValidCase(t *rapid.T) Case {
	c := Case{Kind: "valid", EmptyIDSerial: -1}
	c.Auto = rapid.Bool().Draw(t, "auto")
	c.TTL = rapid.OneOf(rapid.IntRange(1, 5), rapid.IntRange(1, 20)).Draw(t, "ttl")
	if stats.Pct(t, "ttlforever") >= 93 {
		c.TTL = -1
	}
	c.NsTicks = stats.Pct(t, "nsticks") >= 80
	switch rapid.IntRange(0, 4).Draw(t, "gckind") {
	case 0:
		c.GCInterval = 0
	case 1:
		c.GCInterval = -1
	case 2:
		c.GCInterval = rapid.IntRange(1, max(c.TTL, 1)).Draw(t, "gci")
	default:
		c.GCInterval = rapid.IntRange(1, 40).Draw(t, "gci")
	}
	if !c.Auto && rapid.IntRange(0, 3).Draw(t, "useEmptyID") == 0 {
		c.EmptyIDSerial = rapid.IntRange(0, 12).Draw(t, "emptyid")
	}
	c.Prefill = rapid.IntRange(0, 20).Draw(t, "prefill")
	minOps := rapid.IntRange(1, 40).Draw(t, "minops")
	c.Ops = rapid.SliceOfN(genOp(true, c.TTL), minOps, 70).Draw(t, "ops")
	c.SparseProbe = stats.Pct(t, "sparseprobe") >= 70
	return c
}

// ---------------------------------------------------------------------------------------
// Model (written from the property statements; never calls the code under test).
// ---------------------------------------------------------------------------------------

type entry struct {
	serial int
	id     string
	topics []string
	put    time.Time
}

type model struct {
	c        Case
	ttl      time.Duration
	now      time.Time
	entries  []entry // every successful put, in order
	nextAuto int
	attempts int // put attempts so far (serials)
}

func (m *model) visible(i int) bool {
	if m.c.Kind == "finite" {
		return i >= len(m.entries)-m.c.N
	}
	return m.entries[i].put.Add(m.ttl).After(m.now)
}

func (m *model) visibleIdx() (vis, invis []int) {
	for i := range m.entries {
		if m.visible(i) {
			vis = append(vis, i)
		} else {
			invis = append(invis, i)
		}
	}
	return
}

// presented resolves a replay operation's ID against the model. pos is the index into
// m.entries of the entry carrying the ID (-1 when no entry does).
func (m *model) presented(op Op) (id sse.EventID, kind string, pos int) {
	vis, invis := m.visibleIdx()
	never := func() (sse.EventID, string, int) {
		if m.c.Auto {
			switch op.K % 6 {
			case 5:
				// never-issued 20-digit numbers just above 2^64: modulo 2^64 they would land on
				// an issued (buffered or evicted) ID
				j := max(m.nextAuto-2-op.K/6, 0)
				return sse.ID(new(big.Int).Add(new(big.Int).Lsh(big.NewInt(1), 64), big.NewInt(int64(j))).String()), "never", -1
			case 3:
				// huge never-issued numbers (beyond int64, at the uint64 limit)
				return sse.ID([]string{"18446744073709551615", "9223372036854775808", "9223372036854775807", "18446744073709551614"}[op.K/6%4]), "never", -1
			case 4:
				return sse.ID(strconv.FormatUint(uint64(m.nextAuto)+1<<63, 10)), "never", -1
			case 0:
				return sse.ID(strconv.Itoa(m.nextAuto + op.K)), "never", -1
			case 1:
				return sse.ID(fmt.Sprintf("x%d", op.K)), "never", -1
			default:
				return sse.ID(""), "never", -1
			}
		}
		if op.K%3 == 2 {
			for _, e := range m.entries {
				if e.id == "" {
					return sse.ID(fmt.Sprintf("never-%d", op.K)), "never", -1
				}
			}
			return sse.ID(""), "never", -1
		}
		return sse.ID(fmt.Sprintf("never-%d", op.K)), "never", -1
	}
	switch op.IDKind {
	case "unset":
		return sse.EventID{}, "unset", -1
	case "never":
		return never()
	case "evicted":
		if len(invis) == 0 {
			return never()
		}
		p := invis[len(invis)-1-op.K%len(invis)] // biased towards the most recently evicted
		return sse.ID(m.entries[p].id), "evicted", p
	}
	if len(vis) == 0 {
		return never()
	}
	var p int
	switch op.IDKind {
	case "newest":
		p = vis[len(vis)-1]
	case "oldest":
		p = vis[0]
	default:
		p = vis[op.K%len(vis)]
	}
	kind = "buf"
	if p == len(m.entries)-1 {
		kind = "newest"
	} else if p == vis[0] {
		kind = "oldest"
	}
	return sse.ID(m.entries[p].id), kind, p
}

// expected returns the serials that a replay presenting the entry at pos must send.
func (m *model) expected(pos int, topics []string) []int {
	var out []int
	for i := pos + 1; i < len(m.entries); i++ {
		if m.visible(i) && intersects(m.entries[i].topics, topics) {
			out = append(out, m.entries[i].serial)
		}
	}
	return out
}

// ---------------------------------------------------------------------------------------
// Execution against the real replayer.
// ---------------------------------------------------------------------------------------

type sut interface {
	sse.Replayer
}

type world struct {
	m    *model
	fin  *sse.FiniteReplayer
	val  *sse.ValidReplayer
	rep  sut
	v    *stats.Verdict
	puts int
}

func newWorld(c Case, v *stats.Verdict) (*world, error) {
	w := &world{m: &model{c: c, now: t0}, v: v}
	if c.Kind == "finite" {
		r, err := sse.NewFiniteReplayer(c.N, c.Auto)
		if err != nil {
			return nil, err
		}
		w.fin, w.rep = r, r
		return w, nil
	}
	w.m.ttl = time.Duration(c.TTL) * c.tickOf()
	if c.TTL < 0 {
		w.m.ttl = time.Duration(math.MaxInt64) // "keep forever": documented as technically possible
	}
	r, err := sse.NewValidReplayer(w.m.ttl, c.Auto)
	if err != nil {
		return nil, err
	}
	if c.GCInterval >= 0 {
		r.GCInterval = time.Duration(c.GCInterval) * c.tickOf()
	}
	r.Now = func() time.Time { return w.m.now }
	w.val, w.rep = r, r
	return w, nil
}

// prefillTopics is the deterministic topic set of the i-th prefill put.
func prefillTopics(i int) []string {
	mask := (i*7)%14 + 1
	var out []string
	for b, tp := range allTopics {
		if mask&(1<<b) != 0 && len(out) < 3 {
			out = append(out, tp)
		}
	}
	return out
}

// aliased returns the topic set as a slice that shares its backing array with other topic
// sets whenever it is a prefix of the canonical list (callers commonly slice one array).
func aliased(topics []string) []string {
	if len(topics) > len(allTopics) {
		return topics
	}
	for i, tp := range topics {
		if tp != allTopics[i] {
			return topics
		}
	}
	return allTopics[:len(topics)]
}

// put performs a (valid) Put and checks its result.
func (w *world) put(op Op) string {
	m := w.m
	serial := m.attempts
	m.attempts++
	msg := newMsg(serial)
	id := ""
	if m.c.Auto {
		id = strconv.Itoa(m.nextAuto)
	} else {
		id = fmt.Sprintf("m%d", serial)
		if len(m.entries) == m.c.EmptyIDSerial {
			id = ""
		}
		msg.ID = sse.ID(id)
	}
	before := msg.String()
	got, err := w.rep.Put(msg, aliased(op.Topics))
	if err != nil {
		return fmt.Sprintf("valid Put(s%d, topics %q) was rejected: %v", serial, op.Topics, err)
	}
	if got == nil {
		return fmt.Sprintf("valid Put(s%d) returned a nil message", serial)
	}
	if !got.ID.IsSet() || got.ID.String() != id {
		return fmt.Sprintf("Put(s%d) returned ID %q (set=%v), want %q", serial, got.ID.String(), got.ID.IsSet(), id)
	}
	if serialOf(got) != serial {
		return fmt.Sprintf("Put(s%d) returned a message with payload %q", serial, got.String())
	}
	if after := msg.String(); after != before {
		return fmt.Sprintf("Put(s%d) changed the caller's message from %q to %q", serial, before, after)
	}
	m.entries = append(m.entries, entry{serial, id, op.Topics, m.now})
	if m.c.Auto {
		m.nextAuto++
	}
	w.puts++
	return ""
}

func (w *world) badput(op Op) string {
	m := w.m
	serial := m.attempts
	m.attempts++
	msg := newMsg(serial)
	topics := op.Topics
	wrongMode := op.Bad >= 1
	if op.Bad == 0 || op.Bad == 2 {
		topics = nil
		if op.K%2 == 1 {
			topics = []string{}
		}
	}
	// ID mode: manual needs an ID, automatic must not have one.
	if m.c.Auto == wrongMode {
		msg.ID = sse.ID(fmt.Sprintf("bad%d", serial))
	}
	got, err := w.rep.Put(msg, topics)
	if err == nil {
		return fmt.Sprintf("invalid Put(s%d, topics %q, id set=%v, auto=%v) was accepted (returned %v)", serial, topics, msg.ID.IsSet(), m.c.Auto, got)
	}
	if len(topics) == 0 && !errors.Is(err, sse.ErrNoTopic) {
		return fmt.Sprintf("Put without topics returned %v, want ErrNoTopic", err)
	}
	w.v.Class("rejected-put")
	return ""
}

// replay performs one Replay and checks it against the model.
func (w *world) replay(op Op, probe bool) string {
	m := w.m
	id, kind, pos := m.presented(op)
	wr := &recWriter{failSend: op.FailSend, failFlush: op.FailFlush}
	err := w.rep.Replay(sse.Subscription{Client: wr, LastEventID: id, Topics: op.Topics})
	desc := func() string {
		return fmt.Sprintf("Replay(id=%q set=%v kind=%s topics=%q failSend=%d failFlush=%v) at model %s -> err=%v log=%s",
			id.String(), id.IsSet(), kind, op.Topics, op.FailSend, op.FailFlush, m.describe(), err, fmtLog(wr.log))
	}
	if !probe {
		w.v.Class("replay:" + kind)
		if len(op.Topics) > 4 {
			w.v.Class("replay-wide")
		}
	}

	// Split the writer log.
	var sends []sent
	lastSend, flushes, flushAfterLast := -1, 0, false
	var firstErr error
	for i, r := range wr.log {
		if firstErr != nil {
			return "writer called again after it returned an error: " + desc()
		}
		if r.Err != nil {
			firstErr = r.Err
		}
		if r.Flush {
			flushes++
			flushAfterLast = lastSend >= 0
		} else {
			sends = append(sends, r)
			lastSend = i
			flushAfterLast = false
		}
	}

	// Every sent message is a stored, visible, matching entry carrying the ID Put returned;
	// no duplicates; put order.
	prev := -1
	for _, s := range sends {
		var e *entry
		var idx int
		for i := range m.entries {
			if m.entries[i].serial == s.Serial {
				e, idx = &m.entries[i], i
			}
		}
		if e == nil {
			return fmt.Sprintf("sent s%d, which was never successfully put: %s", s.Serial, desc())
		}
		if !m.visible(idx) {
			if m.c.Kind == "valid" {
				return fmt.Sprintf("sent s%d at/after its expiry (put %v + ttl %v <= now %v): %s", s.Serial, e.put.Sub(t0), m.ttl, m.now.Sub(t0), desc())
			}
			return fmt.Sprintf("sent s%d, which is older than the last %d puts: %s", s.Serial, m.c.N, desc())
		}
		if !intersects(e.topics, op.Topics) {
			return fmt.Sprintf("sent s%d whose topics %q do not intersect %q: %s", s.Serial, e.topics, op.Topics, desc())
		}
		if !s.IDSet || s.ID != e.id {
			return fmt.Sprintf("sent s%d with ID %q, Put returned %q: %s", s.Serial, s.ID, e.id, desc())
		}
		if idx <= prev {
			return fmt.Sprintf("sent s%d out of put order or twice: %s", s.Serial, desc())
		}
		prev = idx
	}

	// Return value: exactly the writer's error, nil otherwise.
	if firstErr != nil {
		if !errors.Is(err, firstErr) {
			return fmt.Sprintf("writer failed with %v but Replay returned %v: %s", firstErr, err, desc())
		}
		if !probe {
			w.v.Class("replay-fault-hit")
			if len(op.Topics) > 4 {
				w.v.Class("replay-fault-hit-wide")
			}
		}
	} else if err != nil {
		return fmt.Sprintf("Replay returned %v although the writer never failed: %s", err, desc())
	}

	exact := false // is the exact expectation known?
	var want []int
	switch {
	case kind == "buf" || kind == "oldest" || kind == "newest":
		exact, want = true, m.expected(pos, op.Topics)
	case kind == "never" || kind == "unset":
		exact, want = true, nil
	case kind == "evicted" && !m.c.Auto && m.c.Kind == "finite":
		exact, want = true, nil
	default:
		// evicted ID with automatic IDs (finite) / expired ID (valid): the statements leave
		// this open (DESIGN 6.6); only the validity rules above apply.
		w.v.Count("lenient_evicted_auto", 1)
	}
	if exact {
		if firstErr == nil || firstErr == errFlush {
			if len(sends) != len(want) {
				return fmt.Sprintf("sent %d messages, want serials %v: %s", len(sends), want, desc())
			}
		} else {
			// A Send failed at index FailSend: exactly FailSend+1 sends were attempted.
			if len(sends) != op.FailSend+1 || len(sends) > len(want) {
				return fmt.Sprintf("send #%d failed, %d sends attempted, want serials %v: %s", op.FailSend, len(sends), want, desc())
			}
		}
		for i, s := range sends {
			if s.Serial != want[i] {
				return fmt.Sprintf("send %d was s%d, want serials %v: %s", i, s.Serial, want, desc())
			}
		}
	}
	// "then flushes": whenever something was sent successfully to the end, a Flush follows
	// the last Send (a replay that sent nothing may or may not flush, DESIGN 6.11).
	if len(sends) > 0 && (firstErr == nil || firstErr == errFlush) && !flushAfterLast {
		return "no Flush after the last Send: " + desc()
	}
	if exact && len(want) > 0 && pos >= 0 && !probe {
		w.v.Class("replay-nonempty")
	}
	_ = flushes
	return ""
}

func (m *model) describe() string {
	vis, invis := m.visibleIdx()
	s := fmt.Sprintf("{puts=%d visible=[", len(m.entries))
	for _, i := range vis {
		e := m.entries[i]
		s += fmt.Sprintf("s%d:%q%q ", e.serial, e.id, e.topics)
	}
	return s + fmt.Sprintf("] invisible=%d now=%v}", len(invis), m.now.Sub(t0))
}

// probe is the invariant evaluated after every step: presenting the oldest visible ID with
// all topics must yield every later visible entry (so the whole buffer is compared with
// the model after each operation).
func (w *world) probe(last bool) string {
	if w.m.c.SparseProbe && !last {
		return ""
	}
	vis, _ := w.m.visibleIdx()
	if len(vis) == 0 {
		return ""
	}
	if f := w.replay(Op{Kind: "replay", IDKind: "oldest", Topics: wideTopics, FailSend: -1}, true); f != "" {
		return "invariant probe: " + f
	}
	return ""
}

func genC18Case(t *rapid.T) Case {
	if rapid.Bool().Draw(t, "finite") {
		return genFiniteCase(t)
	}
	return genValidCase(t)
}
