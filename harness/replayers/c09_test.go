package replayers

import (
	"math"
	"testing"
	"time"

	"verif/harness/stats"
)

const ruleC09 = "rapid-generated histories of Put / invalid Put / Replay / GC / clock advance (non-decreasing, dt=0 included) on a ValidReplayer (TTL 1..20 ticks, GCInterval 0 | default | <=TTL | up to 2*TTL, both ID modes), compared with a TTL visibility model (entry visible iff put+ttl > now) at every Replay and by an invariant probe (a Replay of the oldest visible ID with every topic) after every step - or, in 30% of the cases, only after the last step, because the probe is itself a successful Replay and so an observation that can reset state. Topic sets are 1..3 of {default,a,b,c} or, 20% of the time, 1..10 of a ten-topic alphabet in either order. Non-trivial: at least one entry expired, a collection removed something, the internal buffer both grew and shrank (tracked by a shadow of the documented growth policy, used for classification only), and afterwards a Replay presenting a visible non-newest ID had to send something. Distinct: FNV-64 of the JSON of the case."

// shadow tracks what the implementation's buffer is expected to look like, for
// classification of cases only (never for verdicts).
type shadow struct {
	live      int // stored, not yet collected
	collected int
	cap       int
	lastGC    time.Time
	started   bool
	grew      bool
	shrank    bool
	removed   bool
}

func (s *shadow) collect(m *model) {
	n := 0
	for i := s.collected; i < len(m.entries); i++ {
		if m.visible(i) {
			break
		}
		n++
	}
	if n > 0 {
		s.removed = true
	}
	s.collected += n
	s.live -= n
	if s.live <= s.cap/4 {
		nc := s.cap / 2
		if nc < 4 {
			nc = 4
		}
		if nc < s.cap {
			s.shrank = true
		}
		s.cap = nc
	}
}

func (s *shadow) beforePut(m *model, gci time.Duration) {
	if !s.started {
		s.started = true
		s.lastGC = m.now
	}
	if gci > 0 && m.now.Sub(s.lastGC) >= gci {
		s.collect(m)
		s.lastGC = m.now
	}
}

func (s *shadow) stored() {
	if s.live == s.cap {
		nc := s.cap * 2
		if nc < 4 {
			nc = 4
		}
		if s.cap >= 4 {
			s.grew = true
		}
		s.cap = nc
	}
	s.live++
}

func (c Case) gcInterval() time.Duration {
	if c.GCInterval < 0 {
		if c.TTL < 0 {
			return time.Duration(math.MaxInt64) / 4
		}
		return time.Duration(c.TTL) * c.tickOf() / 4
	}
	return time.Duration(c.GCInterval) * c.tickOf()
}

func checkC09(t *testing.T, c Case) *stats.Verdict {
	v := &stats.Verdict{Size: len(c.Ops) + c.Prefill}
	w, err := newWorld(c, v)
	if err != nil {
		return v.Failf("constructor", "NewValidReplayer: %v", err)
	}
	sh := &shadow{}
	gci := c.gcInterval()
	interesting := false // grew, shrank, removed all true at some point
	nontrivial := false
	step := func(i int, op Op) string {
		var f string
		switch op.Kind {
		case "put":
			sh.beforePut(w.m, gci)
			f = w.put(op)
			sh.stored()
		case "badput":
			if op.Bad == 1 { // has topics: reaches the collection step before being rejected
				sh.beforePut(w.m, gci)
			}
			f = w.badput(op)
		case "replay":
			before := len(v.Classes)
			f = w.replay(op, false)
			if interesting {
				for _, cl := range v.Classes[before:] {
					if cl == "replay-nonempty" {
						nontrivial = true
					}
				}
			}
		case "gc":
			w.val.GC()
			sh.collect(w.m)
		case "advance":
			w.m.now = w.m.now.Add(time.Duration(op.Dt) * c.tickOf())
		}
		if sh.grew && sh.shrank && sh.removed {
			interesting = true
		}
		if f == "" {
			f = w.probe(i == len(c.Ops)-1 && i >= 0)
		}
		return f
	}
	for i := 0; i < c.Prefill; i++ {
		if f := step(-1, Op{Kind: "put", Topics: prefillTopics(i)}); f != "" {
			return v.Failf("", "prefill put %d: %s", i, f)
		}
	}
	for i, op := range c.Ops {
		if f := step(i, op); f != "" {
			return v.Failf("", "op %d (%s): %s", i, op.Kind, f)
		}
	}
	_, invis := w.m.visibleIdx()
	if len(invis) > 0 {
		v.Class("some-expired")
	}
	if sh.grew {
		v.Class("buffer-grew")
	}
	if sh.shrank {
		v.Class("buffer-shrank")
	}
	if sh.removed {
		v.Class("collection-removed-entries")
	}
	v.NonTrivial = nontrivial
	return v
}

func TestC09(t *testing.T) {
	stats.Run(t, stats.Prop[Case]{ID: "C09", Rule: ruleC09, Gen: genValidCase, Check: checkC09})
}

func FuzzC09(f *testing.F) {
	stats.Fuzz(f, stats.Prop[Case]{ID: "C09", Rule: ruleC09, Gen: genValidCase, Check: checkC09})
}
