#!/usr/bin/env python3
"""Prints a markdown table of the passes of every check (from ./check's CHECKS table) with quick/thorough budgets."""
import importlib.machinery, importlib.util, os
VERIF = os.path.dirname(os.path.dirname(os.path.abspath(__file__)))
loader = importlib.machinery.SourceFileLoader("checkmod", os.path.join(VERIF, "check"))
spec = importlib.util.spec_from_loader("checkmod", loader)
m = importlib.util.module_from_spec(spec)
loader.exec_module(m)
print("| property | package | pass | quick | thorough |")
print("|---|---|---|---|---|")
for pid in sorted(m.CHECKS):
    cfg = m.CHECKS[pid]
    for p in cfg["passes"]:
        kind = p["kind"]
        extra = []
        if p["race"]:
            extra.append("-race")
        if p["cpu"]:
            extra.append("-cpu " + p["cpu"])
        if p["env"]:
            extra.append(" ".join("%s=%s" % kv for kv in p["env"].items()))
        name = p["test"] + (" (" + ", ".join(extra) + ")" if extra else "")
        if kind == "fuzz":
            q, t = "-", "native fuzz %s, all cores" % p["fuzztime"]
        else:
            q = "%d cases" % p["q"] if "quick" in p["tiers"] and p["q"] else "-"
            t = "%d cases / %d shards" % (p["t"], p["shards"]) if "thorough" in p["tiers"] and p["t"] else "-"
        print("| %s | %s | %s | %s | %s |" % (pid, p["pkg"] or cfg["pkg"], name, q, t))
