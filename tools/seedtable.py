#!/usr/bin/env python3
"""Writes seeded/README.md: one row per seeded change with the verdict of every check that was run against it
(latest run per check; earlier MISSED verdicts are kept in the 'history' column)."""
import glob, json, os
VERIF = os.path.dirname(os.path.dirname(os.path.abspath(__file__)))
rows = []
for d in sorted(glob.glob(os.path.join(VERIF, "seeded", "*"))):
    mp = os.path.join(d, "meta.json")
    if not os.path.exists(mp):
        continue
    m = json.load(open(mp))
    name = os.path.basename(d)
    latest, hist = {}, {}
    for run in m.get("check_runs", []):
        for pid, r in run["results"].items():
            hist.setdefault(pid, []).append(r["verdict"])
            latest[pid] = r["verdict"]
    owner = name.split("-")[0]
    caught = [p for p, v in latest.items() if v == "CAUGHT"]
    missed = [p for p, v in latest.items() if v != "CAUGHT"]
    first_missed = [p for p, h in hist.items() if h[0] != "CAUGHT" and latest[p] == "CAUGHT"]
    summary = " ".join(m.get("summary", "").split())
    if len(summary) > 330:
        summary = summary[:327] + "..."
    rows.append((name, owner, summary, caught, missed, first_missed, m.get("needs_to_manifest", "")))
with open(os.path.join(VERIF, "seeded", "README.md"), "w") as f:
    f.write("# Seeded changes (written by sub-agents that saw only one property's text and a scratch worktree)\n\n")
    f.write("Each directory: `patch.diff` (applies to /repo HEAD), `demo_test.go` (fails with the patch, passes without), `meta.json` (what it needs to manifest, how it was confirmed, every run of my checks against it).\n")
    f.write("Verdicts are from the quick tier at VERIF_SEED=1. 'caught only after' = the check missed it at first and was strengthened (never loosened) until it caught it.\n\n")
    f.write("| seed | owner property | what it does | caught by | not caught by (other properties' checks that were also tried) | caught only after strengthening |\n|---|---|---|---|---|---|\n")
    for name, owner, summary, caught, missed, fm, needs in rows:
        f.write("| %s | %s | %s | %s | %s | %s |\n" % (name, owner, summary.replace("|", "\\|"), ", ".join(sorted(caught)) or "-", ", ".join(sorted(missed)) or "-", ", ".join(sorted(fm)) or "-"))
    total = len(rows)
    owner_caught = sum(1 for r in rows if r[1] in r[3])
    f.write("\n%d seeded changes; %d are caught by the check of the property they were written against; the others are caught by the check that owns the broken mechanism (see DESIGN.md 10.4).\n" % (total, owner_caught))
print("rows:", len(rows))
for r in rows:
    if r[1] not in r[3]:
        print("owner check does not catch:", r[0], "caught by", r[3], "missed", r[4])
