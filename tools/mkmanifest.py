#!/usr/bin/env python3
"""Regenerates /verif/MANIFEST.json from the table below (keeps it schema-valid at all times)."""
import json, os, subprocess, sys
VERIF = os.path.dirname(os.path.dirname(os.path.abspath(__file__)))

# id -> (engine, technique, level text, level note, design ref)
CLAIMED = {
 "C08": ("E2-replayers", "model-based stateful property-based testing (rapid) against a last-N FIFO reference model, invariant probe after every step",
         "Exploration: tens of thousands (quick) to hundreds of thousands (thorough) of generated Put/Replay histories over all capacities 2..9 and both ID modes are compared operation by operation with a reference FIFO; ring shapes incl. write index == 0 and start == write index are reached in most cases. It cannot prove absence, but the state space of the ring (N<=9) is small enough that every (head, tail, count) shape is visited many times per run.",
         "Trusts the reference model in harness/replayers/engine_test.go (written from the property statement). Manual IDs are unique within a history; an evicted ID with automatic IDs is only checked for validity (DESIGN 6.6).", "5/C08"),
 "C09": ("E2-replayers", "model-based stateful property-based testing (rapid) against a TTL visibility model with an injected clock, invariant probe after every step",
         "Exploration: generated Put/Replay/GC/advance histories (non-decreasing injected clock) over TTLs, GC intervals and both ID modes are compared with a visibility model (visible iff put+ttl > now); two one-directional nets (nothing expired is sent; every visible later entry is sent) hold however often collection and resizing ran. The shadow of the growth policy shows that grow, wrap and shrink all happen in a large share of cases.",
         "Trusts the TTL model; the clock never goes backwards (the property's proviso); presenting the ID of an expired entry is only checked for validity.", "5/C09"),
 "C18": ("E2-replayers", "stateful property-based testing (rapid) with weak pointers + forced garbage collection as the reachability oracle",
         "Exploration: on generated histories every message is tracked only through weak pointers; after forced GCs every evicted / expired-and-collected message must be unreachable and the newest reachable. This observes what output comparison cannot (retention), on tens of thousands of grow/wrap/shrink histories.",
         "Relies on Go's precise GC and weak.Pointer semantics; put-triggered collection is required only where both readings of 'after a GCInterval period passed' agree (DESIGN 6.5).", "5/C18"),
}

PENDING_REASON = "check not built yet (work in progress; DESIGN.md section 5 describes the planned generated-input check)"

def main():
    props = [json.loads(l)["id"] for l in open(os.path.join(VERIF, "properties.jsonl"))]
    hooks_commits = []
    hc = os.path.join(VERIF, "tools", "hook_commits.txt")
    if os.path.exists(hc):
        hooks_commits = [l.strip() for l in open(hc) if l.strip()]
    m = {
        "version": 1,
        "setup_cmd": "./check --setup",
        "hooks": {
            "guard": "verif",
            "enable": "go1.26.8 test -c -tags verif (the harness module replaces github.com/tmaxmax/go-sse with /repo, so every check compiles /repo's working tree)",
            "baseline_off_cmd": "cd /repo && go test -vet=off -count=1 ./...",
            "source_commits": hooks_commits,
            "add_only": True,
        },
        "engines": [
            {"name": "E1-wire", "path": "harness/wire", "serves_properties": ["C01", "C02", "C14", "C15", "C19", "C20"], "kind_free_text": "rapid property-based tests + native go fuzz targets against a reference WHATWG interpreter / reference encoder"},
            {"name": "E2-replayers", "path": "harness/replayers", "serves_properties": ["C08", "C09", "C18"], "kind_free_text": "model-based stateful PBT of the replayers (FIFO/TTL models, weak pointers for retention)"},
            {"name": "E3-joesim", "path": "harness/joesim", "serves_properties": ["C03", "C04", "C06", "C07", "C17"], "kind_free_text": "controlled-schedule simulation of Joe in a testing/synctest bubble with generated scenarios and schedules; history checker"},
            {"name": "E4-clientsim", "path": "harness/clientsim", "serves_properties": ["C10", "C11", "C12", "C13"], "kind_free_text": "client under virtual time with a scripted http.RoundTripper"},
            {"name": "E2-serversim", "path": "harness/serversim", "serves_properties": ["C16"], "kind_free_text": "fault-injecting recording http.ResponseWriter / Provider stub"},
            {"name": "E5-e2e", "path": "harness/e2e", "serves_properties": ["C05"], "kind_free_text": "real net/http client+server over net.Pipe in a synctest bubble with generated cut scripts"},
        ],
        "checks": [],
        "not_applicable": [],
        "notes": "All checks are driven by ./check (python3, stdlib only); see DESIGN.md. Exit 2 from a check means inconclusive (build failure/timeouts), never a verdict.",
    }
    for pid in props:
        if pid in CLAIMED:
            eng, tech, text, note, ref = CLAIMED[pid]
            m["checks"].append({
                "property_id": pid,
                "quick_cmd": "./check %s --tier quick" % pid,
                "thorough_cmd": "./check %s --tier thorough" % pid,
                "evidence_file": "/verif/evidence/%s.json" % pid,
                "replay_cmd_template": "./check %s --replay {path}" % pid,
                "engine": eng,
                "level_claimed": {"category": "exploration", "text": text, "design_ref": "DESIGN.md " + ref},
                "level_note": note,
                "technique": tech,
            })
        else:
            m["not_applicable"].append({"property_id": pid, "reason": PENDING_REASON})
    json.dump(m, open(os.path.join(VERIF, "MANIFEST.json"), "w"), indent=1)
    vt = "/opt/veriftools/pyvenv/bin/python"
    if os.path.exists(vt):
        code = "import json,jsonschema;jsonschema.validate(json.load(open('%s/MANIFEST.json')),json.load(open('/root/.vp/MANIFEST.schema.json')));print('MANIFEST valid')" % VERIF
        subprocess.run([vt, "-c", code], check=True)

if __name__ == "__main__":
    main()
