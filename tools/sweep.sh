#!/bin/bash
# tools/sweep.sh <tier> <seed>... : runs every check at the given seeds, prints one line per run.
tier=$1; shift
cd "$(dirname "$0")/.."
for seed in "$@"; do
  for p in $(./check --list | cut -d' ' -f1); do
    out=$(VERIF_SEED=$seed ./check $p --tier $tier 2>&1); rc=$?
    echo "seed=$seed rc=$rc $(echo "$out" | tail -1 | cut -c1-160)"
    if [ $rc -ne 0 ]; then echo "$out" | head -30 | cut -c1-600; fi
  done
done
