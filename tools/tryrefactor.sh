#!/bin/bash
# tools/tryrefactor.sh <dir with patch.diff+meta.json> <name> : runs every quick check against a behaviour-preserving
# refactoring (scratch worktree, /repo untouched). Any KILLED line is an alarm to analyse: either the refactoring is not
# behaviour-preserving after all, or the check demands more than the property states.
cd "$(dirname "$0")/.."
src=$1; name=$2
mkdir -p refactors/$name
cp $src/patch.diff $src/meta.json refactors/$name/ 2>/dev/null
IDS=${@:3}; [ -z "$IDS" ] && IDS=$(./check --list | cut -d" " -f1); python3 tools/trymutant.py refactors/$name/patch.diff $IDS 2>&1 | grep -E "^(baseline|KILLED|SURVIVED|INCONCLUSIVE|patch)" | cut -c1-400 | tee refactors/$name/results.txt
