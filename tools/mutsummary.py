#!/usr/bin/env python3
"""Writes mutation/README.md from mutation/results.jsonl and the manual classification of the survivors."""
import json, collections, os
VERIF = os.path.dirname(os.path.dirname(os.path.abspath(__file__)))
# (file, line) -> (class, note). Classes: equivalent | outside | extended | inconclusive
CLASS = {
 ("internal/parser/field_parser.go", 86): ("equivalent", "Reset is never called again after an ErrUnexpectedEOF (the last chunk of the input), so the stale error is unobservable"),
 ("internal/parser/parser.go", 62): ("equivalent", "differs only for a Next call after Next already returned false at EOF, which read() never makes"),
 ("internal/parser/parser.go", 128): ("equivalent", "the BOM option is switched off after the first chunk by Parser.Next anyway"),
 ("internal/parser/parser.go", 129): ("equivalent", "same: re-evaluating the first-chunk test on later chunks only repeats RemoveBOM(false)"),
 ("event.go", 55): ("extended", "non-nil ReadConfig with MaxEventSize 0 must mean the default limit - the generators only used a nil config for the default; now C20 uses nil, &ReadConfig{} and MaxEventSize:-1 (killed since)"),
 ("message.go", 249): ("outside", "text of UnmarshalError.Error(); no property speaks about error texts"),
 ("replay.go", 114): ("extended", "NewValidReplayer(1ns) rejected - TTLs were whole milliseconds; C09/C18 now also run with nanosecond ticks (killed since)"),
 ("replay.go", 139): ("equivalent", "an unset lastGC only makes the first Put collect an empty buffer"),
 ("replay.go", 144): ("equivalent", "collects on every later Put: more collections than required are allowed"),
 ("replay.go", 154): ("equivalent", "newCap == 4 is set to 4"),
 ("replay.go", 166): ("extended", "GCInterval of 1ns treated as 'off' - killed since by the nanosecond ticks (C18)"),
 ("replay.go", 184): ("equivalent", "shrinks one step later: memory only, collected slots are zeroed anyway"),
 ("replay.go", 186): ("equivalent", "see line 154"),
 ("replay.go", 187): ("equivalent", "capacity may drop below 4 and grows again on the next Put: memory only"),
 ("replay.go", 189): ("equivalent", "never shrinking keeps only zeroed slots: no message stays reachable"),
 ("replay.go", 286): ("equivalent", "tail == head after the increment cannot happen when the ring is full"),
 ("replay.go", 328): ("equivalent", "callers test i < 0"), ("replay.go", 334): ("equivalent", "callers test i < 0"), ("replay.go", 344): ("equivalent", "callers test i < 0"),
 ("replay.go", 350): ("equivalent", "i == len(buf) only for the newest ID, which returned earlier"),
 ("replay.go", 357): ("equivalent", "-2 becomes -1 through the increment and is returned as 'not found'"),
 ("replay.go", 361): ("equivalent", "keeps scanning after the match; manual IDs are unique (precondition)"),
 ("replay.go", 369): ("equivalent", "each(len(buf)) walks 0..tail exactly like each(0) when tail > 0, and tail == 0 is the newest-ID case"),
 ("replay.go", 372): ("equivalent", "callers test i < 0"),
 ("joe.go", 119): ("equivalent", "larger channel buffer"), ("joe.go", 163): ("equivalent", "larger channel buffer"),
 ("joe.go", 269): ("equivalent", "the error was already put into the buffered channel; Subscribe reads it and returns"),
 ("joe.go", 323): ("equivalent", "a nil replayer is skipped by the `replay != nil` guards"),
 ("client.go", 146): ("outside", "Jitter 0 kept instead of defaulted: waits equal b exactly, which lies within +-0.5 - C12 states a window, not that randomisation must be observable"),
 ("client.go", 186): ("equivalent", "server retry values are whole milliseconds, never 1ns"),
 ("client.go", 197): ("equivalent", "the interval is ignored when shouldRetry is false"), ("client.go", 206): ("equivalent", "the interval is ignored when shouldRetry is false"),
 ("client.go", 205): ("extended", "MaxElapsedTime of 1ns ignored - C12 now also draws MaxElapsedTime = 1ns"),
 ("client.go", 221): ("equivalent", "+-1ns inside the jitter window, within the stated tolerance"),
 ("client.go", 225): ("extended", "(`>=` -> `>`) equal case gives the same value; (`> 0` -> `> 1`) MaxInterval of 1ns ignored - C12 now draws initial intervals 2ns/3ns so that MaxInterval = 1ns occurs"),
 ("client_connection.go", 95): ("equivalent", "an empty inner map is as good as none"),
 ("client_connection.go", 106): ("extended", "Connection.Buffer ignoring the buffer: only visible with Buffer(make([]byte,0,N), 0); C20 (owner of Buffer, not in the first related list) kills it through its connbuf route"),
 ("client_connection.go", 165): ("equivalent", "differs only for a limit of exactly 1 byte, below any event"),
 ("client_connection.go", 175): ("equivalent", "the iterator stops after an error item by itself"),
 ("client_connection.go", 200): ("outside", "request header Accept: no property"), ("client_connection.go", 201): ("outside", "request header Connection: no property"), ("client_connection.go", 202): ("outside", "request header Cache: no property"),
 ("server.go", 197): ("outside", "Server.Shutdown on a never-used Server without Provider: the properties speak of a Server backed by a provider"),
 ("server.go", 205): ("outside", "default provider when Server.Provider is nil: not in any property"),
 ("session.go", 140): ("inconclusive", "getResponseWriter loops forever on a wrapped writer: C16 times out (exit 2, inconclusive by the time-budget rule), it does not stay silent"),
}
# second round (conditions forced, errors dropped, defers deleted, adjacent statements swapped): keyed by (file, line, op)
CLASS2 = {
 ("client_connection.go", 244, "delete defer"): ("outside", "the response body is not closed: resource hygiene, no property; the end-to-end check still sees every connection torn down by the harness"),
 ("internal/parser/field_parser.go", 28, "if cond -> if false"): ("equivalent", "the length test is only a shortcut: names longer than 5 bytes match no field anyway"),
 ("internal/parser/parser.go", 62, "if cond -> if false"): ("equivalent", "see first round, line 62"),
 ("internal/parser/parser.go", 104, "if cond -> if true"): ("equivalent", "Err() is only consulted after Next returned false, i.e. at the end of the input"),
 ("internal/parser/parser.go", 128, "if cond -> if true"): ("equivalent", "see first round, line 128"),
 ("event.go", 108, "if cond -> if true"): ("extended", "calls a nil onRetry in sse.Read (nil-func panic inlined into the harness's frame): the run was INCONCLUSIVE because the panic guard looked for the package path only; it now also recognises go-sse source paths in the stack (killed by C01 and C11 since)"),
 ("message.go", 249, "if cond -> if true"): ("outside", "error text"), ("message.go", 249, "if cond -> if false"): ("outside", "error text"),
 ("message.go", 307, "if cond -> if false"): ("outside", "UnmarshalText of a retry value that overflows int64: not reachable from MarshalText output (C15) and no property covers it"),
 ("replay.go", 138, "if cond -> if false"): ("equivalent", "see first round, line 139"),
 ("replay.go", 152, "if cond -> if true"): ("inconclusive", "the buffer doubles on every Put: C09/C18/C19 run out of time or memory (exit 2), they do not stay silent"),
 ("replay.go", 184, "if cond -> if false"): ("equivalent", "never shrinks: memory only"),
 ("replay.go", 314, "if cond -> if false"): ("equivalent", "the wrapped-copy branch also handles head < tail: what it copies beyond the live entries are zeroed slots"),
 ("replay.go", 368, "if cond -> if false"): ("equivalent", "see first round, line 369"),
 ("joe.go", 228, "if cond -> if true"): ("equivalent", "after a replayer panic the nil replayer panics again inside tryPut and is recovered the same way"),
 ("joe.go", 257, "if cond -> if true"): ("equivalent", "same for tryReplay"),
 ("joe.go", 322, "if cond -> if false"): ("equivalent", "see first round, line 323"),
 ("client.go", 80, "if cond -> if false"): ("outside", "NewConnection(nil) panics later instead of at once"),
 ("client.go", 103, "if cond -> if false"): ("outside", "DefaultValidator's status check: no property states what the default validator accepts"),
 ("client.go", 213, "if cond -> if true"): ("outside", "no jitter at all: every wait equals b, which is inside the +-Jitter window C12 states"),
 ("client_connection.go", 94, "if cond -> if false"): ("equivalent", "see first round, line 95"),
 ("client_connection.go", 150, "if cond -> if false"): ("equivalent", "the early return is only a shortcut"),
 ("client_connection.go", 205, "delete defer"): ("equivalent", "a stopped-late timer"),
 ("session.go", 60, "if cond -> if true"): ("equivalent", "one flush more than necessary"),
 ("server.go", 204, "if cond -> if false"): ("outside", "default provider"),
}
rows = [json.loads(l) for l in open(os.path.join(VERIF, "mutation", "results.jsonl"))]
c = collections.Counter(r["status"] for r in rows)
passing = [r for r in rows if r["status"] == "passes-baseline"]
killed = [r for r in passing if r["killed"]]
surv = [r for r in passing if not r["killed"]]
bycheck = collections.Counter()
for r in killed:
    for p, v in r["checks"].items():
        if v["verdict"] == "KILLED":
            bycheck[p] += 1
cls = collections.Counter()
with open(os.path.join(VERIF, "mutation", "README.md"), "w") as f:
    f.write("# Systematic mutation run (tools/mutate.py)\n\n")
    f.write("Syntactic mutants of every non-test source file of the library - first round: relational/boolean operator swaps, constant changes 0<->1, 1->2, `+ 1`/`- 1` removal, `++`->`--`, deletion of simple assignments, calls, `break`/`continue`; second round: every simple `if` condition forced true and forced false, `return err` -> `return nil`, deleted `defer`s, adjacent simple statements swapped - one per run, each applied in a scratch worktree. A mutant is only interesting when it compiles and passes the 89-test baseline; those were run against the quick tier (seed 1) of the checks that own the mutated file, stopping at the first kill.\n\n")
    f.write("| | count |\n|---|---|\n| mutants generated | %d |\n| do not compile | %d |\n| killed by the baseline suite | %d |\n| **pass the baseline** | **%d** |\n| - killed by a check | %d |\n| - survived all related checks | %d |\n\n" % (len(rows), c["does-not-compile"], c["killed-by-baseline"], len(passing), len(killed), len(surv)))
    f.write("Kills by check (first killing check only): " + ", ".join("%s %d" % (p, n) for p, n in sorted(bycheck.items())) + ".\n\n")
    f.write("## Survivors, classified by hand\n\n| file:line | mutation | class | why |\n|---|---|---|---|\n")
    for r in sorted(surv, key=lambda r: (r["file"], r["line"])):
        k, note = CLASS2.get((r["file"], r["line"], r["op"]), (None, None))
        if k is None and r["op"] == "swap with next statement":
            k, note = "equivalent", "the two adjacent statements are independent of each other (read one by one)"
        if k is None:
            k, note = CLASS.get((r["file"], r["line"]), ("UNCLASSIFIED", ""))
        cls[k] += 1
        f.write("| %s:%d | `%s` → `%s` | %s | %s |\n" % (r["file"], r["line"], r["old"].replace("|", "\\|")[:70], r["new"].replace("|", "\\|")[:50], k, note))
    f.write("\nSurvivor classes: " + ", ".join("%s %d" % kv for kv in sorted(cls.items())) + ".\n")
    f.write("\n'extended' = a real blind spot of the generators at the time of the run; the generator was extended and the mutant re-run by hand is now killed (see the note). 'outside' = behaviour none of the twenty properties speaks about. 'equivalent' = no observable difference through the public API within the properties' domains.\n")
print(dict(c), "passing", len(passing), "killed", len(killed), "survived", len(surv), dict(cls))
