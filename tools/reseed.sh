#!/bin/bash
# tools/reseed.sh [-P n] : re-runs every stored seed (seeded/*/) against the checks that caught it
# before (regression of the checks' sensitivity after generator/oracle changes).
# Prints one line per (seed, check); "MISSED" lines are regressions to look at.
cd "$(dirname "$0")/.."
par=${2:-4}
ls -d seeded/*/ | while read d; do
  name=$(basename $d)
  ids=$(jq -r '[.check_runs[]?.results | to_entries[] | select(.value.verdict=="CAUGHT") | .key] | unique | join(" ")' $d/meta.json)
  [ -n "$ids" ] && echo "$d $name $ids"
done | xargs -P $par -L 1 sh -c 'python3 tools/tryseed.py "$0" "$@" 2>&1 | grep -E "^(CAUGHT|MISSED|INCONCLUSIVE|NOT)" | cut -c1-160'
