#!/usr/bin/env python3
"""Applies a patch to a scratch worktree of /repo (never to /repo itself), checks that it compiles and
passes the baseline suite, and runs the given checks against that worktree (VERIF_REPO_OVERRIDE).

  tools/trymutant.py <patch.diff> <ID> [<ID> ...] [--tier quick] [--seed N]
Prints one line per check: KILLED (exit 1), SURVIVED (exit 0) or INCONCLUSIVE (exit 2).
"""
import os, subprocess, sys, time
VERIF = os.path.dirname(os.path.dirname(os.path.abspath(__file__)))

def sh(cmd, **kw):
    return subprocess.run(cmd, shell=True, stdout=subprocess.PIPE, stderr=subprocess.STDOUT, text=True, **kw)

def main():
    args = [a for a in sys.argv[1:] if not a.startswith("--")]
    tier = "quick"
    seed = os.environ.get("VERIF_SEED", "1")
    for i, a in enumerate(sys.argv):
        if a == "--tier":
            tier = sys.argv[i + 1]; args.remove(tier)
        if a == "--seed":
            seed = sys.argv[i + 1]; args.remove(seed)
    patch, ids = os.path.abspath(args[0]), args[1:]
    wt = "/tmp/mutrun-%d" % os.getpid()
    scratch = wt + "-out"
    r = sh("git -C /repo worktree add -q --detach %s HEAD" % wt)
    if r.returncode != 0:
        print("cannot create worktree:", r.stdout); return 2
    rc = 0
    try:
        r = sh("git apply " + patch, cwd=wt)
        if r.returncode != 0:
            print("patch does not apply:", r.stdout); return 2
        b = sh("go build ./... && go test -vet=off -count=1 ./... 2>&1 | tail -5", cwd=wt)
        ok = b.returncode == 0 and "FAIL" not in b.stdout
        print("baseline with mutant:", "passes" if ok else "FAILS\n" + b.stdout)
        for pid in ids:
            t0 = time.time()
            env = dict(os.environ, VERIF_SEED=seed, VERIF_REPO_OVERRIDE=wt, VERIF_EVIDENCE_DIR=scratch + "/evidence", VERIF_FAILURES_DIR=scratch + "/failures")
            c = sh("./check %s --tier %s" % (pid, tier), cwd=VERIF, env=env)
            verdict = {0: "SURVIVED", 1: "KILLED", 2: "INCONCLUSIVE"}.get(c.returncode, "rc=%d" % c.returncode)
            lines = c.stdout.strip().splitlines()
            msg = next((l for l in lines if l.strip()), "")[:300]
            print("%-12s %s %s  (%.1fs)  %s" % (verdict, pid, os.path.basename(patch), time.time() - t0, msg if verdict != "SURVIVED" else lines[-1] if lines else ""))
            if c.returncode != 1:
                rc = 1
    finally:
        sh("git -C /repo worktree remove --force %s" % wt)
        sh("rm -rf %s" % scratch)
    return rc

if __name__ == "__main__":
    sys.exit(main())
