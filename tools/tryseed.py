#!/usr/bin/env python3
"""Confirms a seeded defect delivered by a sub-agent and runs the checks against it.

  tools/tryseed.py <seed-dir> <name> <ID> [<ID>...] [--tier quick]

<seed-dir> holds patch.diff, demo_test.go, meta.json. Steps:
  1. scratch worktree of /repo HEAD under /tmp: demo passes on the clean tree; with the patch the
     existing suite passes and the demo fails;
  2. patch applied to /repo, every given check is run (quick tier), /repo reverted (always);
  3. if confirmed, the seed is stored as /verif/seeded/<name>/ with the results in meta.json.
"""
import json, os, shutil, subprocess, sys, time
VERIF = os.path.dirname(os.path.dirname(os.path.abspath(__file__)))
ENV = dict(os.environ, GOFLAGS="-mod=mod", GOPROXY="off", GOSUMDB="off", GOTOOLCHAIN="local")

def sh(cmd, cwd=None, env=ENV, timeout=1800):
    r = subprocess.run(cmd, shell=True, cwd=cwd, env=env, stdout=subprocess.PIPE, stderr=subprocess.STDOUT, text=True, timeout=timeout)
    return r.returncode, r.stdout

def main():
    args = [a for a in sys.argv[1:] if not a.startswith("--")]
    tier = "quick"
    if "--tier" in sys.argv:
        tier = sys.argv[sys.argv.index("--tier") + 1]; args.remove(tier)
    seed, name, ids = os.path.abspath(args[0]), args[1], args[2:]
    meta = json.load(open(os.path.join(seed, "meta.json")))
    patch = os.path.join(seed, "patch.diff")
    demo = os.path.join(seed, "demo_test.go")
    demo_dir = meta.get("demo_dir", ".") or "."
    wt = "/tmp/seedcheck-%d" % os.getpid()
    rc, out = sh("git -C /repo worktree add -q --detach %s HEAD" % wt)
    if rc != 0:
        print("cannot create worktree:", out); return 2
    confirmed = {}
    try:
        dst = os.path.join(wt, demo_dir, "zz_seed_demo_test.go")
        shutil.copyfile(demo, dst)
        rc, out = sh("go test -vet=off -count=1 -run 'TestSeedDemo' ./%s" % demo_dir, cwd=wt)
        confirmed["demo_passes_on_clean_tree"] = rc == 0
        os.remove(dst)
        rc, out = sh("git apply %s" % patch, cwd=wt)
        if rc != 0:
            rc, out = sh("git apply -3 %s" % patch, cwd=wt)
        confirmed["patch_applies"] = rc == 0
        if rc != 0:
            print("patch does not apply:", out)
        rc, out = sh("go build ./... && go test -vet=off -count=1 ./...", cwd=wt)
        confirmed["suite_passes_with_patch"] = rc == 0
        if rc != 0:
            print(out[-1500:])
        shutil.copyfile(demo, dst)
        rc, out2 = sh("go test -vet=off -count=1 -run 'TestSeedDemo' ./%s" % demo_dir, cwd=wt)
        confirmed["demo_fails_with_patch"] = rc != 0
    finally:
        sh("git -C /repo worktree remove --force %s" % wt)
    print("confirmation:", confirmed)
    ok = all(confirmed.values())
    results = {}
    if ok:
        # the checks run against a scratch worktree with the patch applied (VERIF_REPO_OVERRIDE),
        # never against /repo itself
        wt2 = "/tmp/seedrun-%d" % os.getpid()
        rc, out = sh("git -C /repo worktree add -q --detach %s HEAD" % wt2)
        try:
            rc, out = sh("git apply %s || git apply -3 %s" % (patch, patch), cwd=wt2)
            scratch = "/tmp/seedrun-%d-out" % os.getpid()
            env = dict(ENV, VERIF_SEED=os.environ.get("VERIF_SEED", "1"), VERIF_REPO_OVERRIDE=wt2, VERIF_EVIDENCE_DIR=scratch + "/evidence", VERIF_FAILURES_DIR=scratch + "/failures")
            for pid in ids:
                t0 = time.time()
                rc, out = sh("./check %s --tier %s" % (pid, tier), cwd=VERIF, env=env)
                verdict = {0: "MISSED", 1: "CAUGHT", 2: "INCONCLUSIVE"}.get(rc, "rc=%d" % rc)
                lines = [l for l in out.strip().splitlines() if l.strip()]
                first = lines[0][:400] if lines else ""
                results[pid] = {"verdict": verdict, "wall_s": round(time.time() - t0, 1), "first_line": first if verdict != "MISSED" else lines[-1]}
                print("%-12s %s  %s  (%.1fs) %s" % (verdict, pid, name, time.time() - t0, results[pid]["first_line"][:300]))
        finally:
            sh("git -C /repo worktree remove --force %s" % wt2)
            shutil.rmtree(scratch, ignore_errors=True)
    out_dir = os.path.join(VERIF, "seeded", name)
    if ok:
        os.makedirs(out_dir, exist_ok=True)
        if os.path.abspath(seed) != os.path.abspath(out_dir):
            shutil.copyfile(patch, os.path.join(out_dir, "patch.diff"))
            shutil.copyfile(demo, os.path.join(out_dir, "demo_test.go"))
        old = {}
        mp = os.path.join(out_dir, "meta.json")
        if os.path.exists(mp):
            old = json.load(open(mp))
        meta["confirmed_by_me"] = confirmed
        meta["how_confirmed"] = "tools/tryseed.py: scratch worktree of /repo HEAD under /tmp (removed afterwards): demo passes clean; patch applied -> go test ./... passes, demo fails"
        meta["repo_head"] = sh("git -C /repo log --format=%h -n1")[1].strip()
        runs = old.get("check_runs", [])
        runs.append({"tier": tier, "results": results})
        meta["check_runs"] = runs
        json.dump(meta, open(mp, "w"), indent=1)
    else:
        print("NOT CONFIRMED; not stored")
    return 0

if __name__ == "__main__":
    sys.exit(main())
