#!/usr/bin/env python3
"""Systematic mutation run: syntactic mutants of the library source, filtered by the baseline suite,
then run against the quick tier of the checks that own the mutated file.

  tools/mutate.py [--workers N] [--files a.go,b.go] [--limit N] [--out mutation/results.jsonl]

Every mutant is applied in a private scratch worktree of /repo (never /repo itself). A mutant that does
not compile or fails the 89-test baseline is discarded (counted). For the others every related check is
run (VERIF_REPO_OVERRIDE); verdict per check: KILLED (exit 1) / SURVIVED (exit 0) / INCONCLUSIVE.
"""
import argparse, json, os, re, subprocess, sys, threading, queue, time, hashlib

VERIF = os.path.dirname(os.path.dirname(os.path.abspath(__file__)))
ENV = dict(os.environ, GOFLAGS="-mod=mod", GOPROXY="off", GOSUMDB="off", GOTOOLCHAIN="local")

RELATED = {
    "internal/parser/chunk.go": ["C01", "C02", "C14", "C15", "C20"],
    "internal/parser/field.go": ["C01", "C15", "C14"],
    "internal/parser/field_parser.go": ["C01", "C15", "C14", "C11"],
    "internal/parser/parser.go": ["C01", "C20", "C11", "C10"],
    "event.go": ["C01", "C11", "C12", "C10", "C20"],
    "message.go": ["C02", "C15", "C19", "C14", "C16"],
    "message_fields.go": ["C14", "C02", "C15"],
    "replay.go": ["C08", "C09", "C18", "C19", "C04"],
    "joe.go": ["C03", "C04", "C06", "C07", "C17", "C05"],
    "client.go": ["C12", "C11", "C10"],
    "client_connection.go": ["C10", "C11", "C12", "C13", "C01", "C20", "C05"],
    "session.go": ["C16", "C14", "C05"],
    "server.go": ["C16", "C05"],
}

SECOND_ROUND = False

OPS = [
    (r"==", "!="), (r"!=", "=="),
    (r"<=", "<"), (r">=", ">"),
    (r"(?<![<\-=])<(?![=<\-])", "<="), (r"(?<![>\-=])>(?![=>])", ">="),
    (r"&&", "||"), (r"\|\|", "&&"),
    (r"\btrue\b", "false"), (r"\bfalse\b", "true"),
    (r"\+ 1\b", "+ 0"), (r"- 1\b", "- 0"), (r"\+\+", "--"),
    (r"\b0\b", "1"), (r"\b1\b", "2"),
]


def sh(cmd, cwd=None, env=ENV, timeout=900):
    try:
        r = subprocess.run(cmd, shell=True, cwd=cwd, env=env, stdout=subprocess.PIPE, stderr=subprocess.STDOUT, text=True, timeout=timeout)
        return r.returncode, r.stdout
    except subprocess.TimeoutExpired:
        return 124, "timeout"


def code_part(line):
    """Returns the part of the line before a // comment (rough: ignores // inside strings)."""
    i = line.find("//")
    return line if i < 0 else line[:i]


def gen_mutants(relpath, src):
    lines = src.split("\n")
    out = []
    in_block_comment = False
    for ln, line in enumerate(lines):
        stripped = line.strip()
        if in_block_comment:
            if "*/" in stripped:
                in_block_comment = False
            continue
        if stripped.startswith("/*"):
            in_block_comment = "*/" not in stripped
            continue
        if not stripped or stripped.startswith("//") or stripped.startswith("import") or stripped.startswith("package"):
            continue
        if "verifYield" in line or "verifRecover" in line or "nolint" in stripped and stripped.startswith("//"):
            continue
        code = code_part(line)
        if code.count('"') % 2 == 1:
            continue
        # operator replacements, one occurrence at a time, outside string literals
        segs = re.split(r'("(?:[^"\\]|\\.)*"|`[^`]*`|\'(?:[^\'\\]|\\.)*\')', code)
        for pat, rep in OPS:
            pos = 0
            for si, seg in enumerate(segs):
                if si % 2 == 1:
                    pos += len(seg)
                    continue
                for m in re.finditer(pat, seg):
                    a, b = pos + m.start(), pos + m.end()
                    new = code[:a] + rep + code[b:] + line[len(code):]
                    if new != line:
                        out.append((ln, "%s -> %s" % (m.group(0), rep), new))
                pos += len(seg)
        # statement deletion: simple statements that are whole lines
        if re.match(r"^\s*[A-Za-z_][\w\.\[\]\*\(\)]*\s*(=|\+=|-=|:=|\+\+|--)[^=]", line) and not stripped.endswith("{") and ":=" not in stripped:
            out.append((ln, "delete assignment", re.match(r"^\s*", line).group(0) + "_ = 0"))
        if re.match(r"^\s*[A-Za-z_][\w\.]*\(.*\)\s*$", code) and not stripped.startswith(("return", "defer", "go ", "panic", "if", "for", "switch", "func")):
            out.append((ln, "delete call", re.match(r"^\s*", line).group(0) + "_ = 0"))
        if stripped in ("continue", "break"):
            out.append((ln, "delete " + stripped, re.match(r"^\s*", line).group(0) + "_ = 0"))
        if SECOND_ROUND:
            indent = re.match(r"^\s*", line).group(0)
            m = re.match(r"^(\s*(?:\} else )?if )([^;{]+)( \{\s*)$", code)
            if m and "err" != m.group(2).strip():
                out.append((ln, "if cond -> if true", m.group(1) + "true || (" + m.group(2) + ")" + m.group(3)))
                out.append((ln, "if cond -> if false", m.group(1) + "false && (" + m.group(2) + ")" + m.group(3)))
            if re.match(r"^\s*return err\s*$", code):
                out.append((ln, "return err -> return nil", indent + "return nil"))
            m = re.match(r"^(\s*return )(.+), err\s*$", code)
            if m:
                out.append((ln, "return x, err -> return x, nil", m.group(1) + m.group(2) + ", nil"))
            if re.match(r"^\s*defer [A-Za-z_][\w\.]*\(.*\)\s*$", code):
                out.append((ln, "delete defer", indent + "_ = 0"))
            # swap with the next line when both are simple statements at the same indent
            if ln + 1 < len(lines):
                nxt = lines[ln + 1]
                simple = lambda l: re.match(r"^\s*[A-Za-z_][\w\.\[\]\*]*(\(.*\)|\s*(=|\+=|-=|\+\+|--).*)\s*$", code_part(l)) and not code_part(l).strip().endswith("{")
                if simple(line) and simple(nxt) and re.match(r"^\s*", nxt).group(0) == indent and "verifYield" not in nxt and nxt.strip() != line.strip():
                    out.append((ln, "swap with next statement", "SWAP"))
    return out


def worker(wid, q, results, lock, tier, repo_head):
    wt = "/tmp/mutate-w%d-%d" % (wid, os.getpid())
    sh("git -C /repo worktree add -q --detach %s %s" % (wt, repo_head))
    scratch = wt + "-out"
    try:
        while True:
            try:
                item = q.get_nowait()
            except queue.Empty:
                return
            mid, relpath, ln, op, newline = item
            path = os.path.join(wt, relpath)
            orig = open(path).read()
            lines = orig.split("\n")
            old = lines[ln]
            if newline == "SWAP":
                lines[ln], lines[ln + 1] = lines[ln + 1], lines[ln]
                newline = lines[ln] + " <-> " + lines[ln + 1].strip()
            else:
                lines[ln] = newline
            open(path, "w").write("\n".join(lines))
            rec = dict(id=mid, file=relpath, line=ln + 1, op=op, old=old.strip(), new=newline.strip())
            try:
                rc, out = sh("go build ./... && go vet -tags verif ./... >/dev/null 2>&1; go build -tags verif ./...", cwd=wt, timeout=300)
                if rc != 0:
                    rec["status"] = "does-not-compile"
                else:
                    rc, out = sh("go test -vet=off -count=1 ./... 2>&1 | tail -3", cwd=wt, timeout=600)
                    if rc != 0 or "FAIL" in out or "panic" in out:
                        rec["status"] = "killed-by-baseline"
                    else:
                        rec["status"] = "passes-baseline"
                        rec["checks"] = {}
                        env = dict(ENV, VERIF_SEED="1", VERIF_REPO_OVERRIDE=wt, VERIF_EVIDENCE_DIR=scratch + "/ev", VERIF_FAILURES_DIR=scratch + "/fail")
                        for pid in RELATED[relpath]:
                            t0 = time.time()
                            rc, out = sh("./check %s --tier %s" % (pid, tier), cwd=VERIF, env=env, timeout=1800)
                            verdict = {0: "SURVIVED", 1: "KILLED", 2: "INCONCLUSIVE"}.get(rc, "rc=%d" % rc)
                            first = next((l for l in out.strip().splitlines() if l.strip()), "")[:200]
                            rec["checks"][pid] = dict(verdict=verdict, wall_s=round(time.time() - t0, 1), first=first if verdict != "SURVIVED" else "")
                            if verdict == "KILLED":
                                break  # one kill is enough
                        rec["killed"] = any(c["verdict"] == "KILLED" for c in rec["checks"].values())
            finally:
                open(path, "w").write(orig)
            with lock:
                results.write(json.dumps(rec) + "\n")
                results.flush()
                print("%s %s:%d [%s] %s %s" % (rec["id"], relpath, ln + 1, op, rec["status"], "" if "killed" not in rec else ("KILLED by " + ",".join(p for p, c in rec["checks"].items() if c["verdict"] == "KILLED") if rec["killed"] else "SURVIVED all of " + ",".join(rec["checks"]))), flush=True)
    finally:
        sh("git -C /repo worktree remove --force %s" % wt)
        sh("rm -rf %s" % scratch)


def main():
    ap = argparse.ArgumentParser()
    ap.add_argument("--workers", type=int, default=4)
    ap.add_argument("--files", default="")
    ap.add_argument("--limit", type=int, default=0)
    ap.add_argument("--stride", type=int, default=1, help="take every n-th mutant (deterministic subsample)")
    ap.add_argument("--tier", default="quick")
    ap.add_argument("--out", default=os.path.join(VERIF, "mutation", "results.jsonl"))
    ap.add_argument("--second", action="store_true", help="second-round operators only (conditions forced, errors dropped, defers deleted, statements swapped)")
    a = ap.parse_args()
    global SECOND_ROUND, OPS
    if a.second:
        SECOND_ROUND, OPS = True, []
    files = [f for f in RELATED if not a.files or f in a.files.split(",")]
    head = sh("git -C /repo rev-parse HEAD")[1].strip()
    q = queue.Queue()
    n = 0
    done = set()
    if os.path.exists(a.out):
        for l in open(a.out):
            try:
                done.add(json.loads(l)["id"])
            except Exception:
                pass
    for f in files:
        src = open(os.path.join("/repo", f)).read()
        for ln, op, new in gen_mutants(f, src):
            mid = hashlib.sha1(("%s:%d:%s:%s" % (f, ln, op, new)).encode()).hexdigest()[:10]
            n += 1
            if n % a.stride != 0 or mid in done:
                continue
            q.put((mid, f, ln, op, new))
    total = q.qsize()
    if a.limit:
        items = []
        while not q.empty() and len(items) < a.limit:
            items.append(q.get())
        q = queue.Queue()
        for it in items:
            q.put(it)
    print("mutants generated: %d, to run now: %d (already done: %d)" % (n, q.qsize(), len(done)), flush=True)
    os.makedirs(os.path.dirname(a.out), exist_ok=True)
    lock = threading.Lock()
    with open(a.out, "a") as results:
        ths = [threading.Thread(target=worker, args=(i, q, results, lock, a.tier, head)) for i in range(a.workers)]
        for t in ths:
            t.start()
        for t in ths:
            t.join()


if __name__ == "__main__":
    main()
