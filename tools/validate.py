#!/usr/bin/env python3
"""Validates MANIFEST.json and every evidence/*.json against the schemas (needs the tooling venv's jsonschema)."""
import glob, json, os, subprocess, sys
VERIF = os.path.dirname(os.path.dirname(os.path.abspath(__file__)))
code = r'''
import json, glob, sys, jsonschema
ms = json.load(open("/root/.vp/MANIFEST.schema.json")); es = json.load(open("/root/.vp/EVIDENCE.schema.json"))
m = json.load(open("%(v)s/MANIFEST.json")); jsonschema.validate(m, ms)
bad = 0
claimed = {c["property_id"] for c in m["checks"]}
for pid in sorted(claimed):
    f = "%(v)s/evidence/" + pid + ".json"
    try:
        e = json.load(open(f)); jsonschema.validate(e, es)
        c = e["coverage"]
        print("%%s ok tier=%%s evals=%%d distinct_nontrivial=%%d samples=%%d violations=%%s" %% (pid, e["tier"], c["evaluations"], c["distinct_nontrivial"], len(c["samples"]), e.get("violations")))
        if e.get("violations"): bad += 1
    except Exception as x:
        print(pid, "INVALID:", str(x)[:200]); bad += 1
sys.exit(1 if bad else 0)
''' % {"v": VERIF}
sys.exit(subprocess.run(["/opt/veriftools/pyvenv/bin/python", "-c", code]).returncode)
