#!/bin/bash
# Every "fix:" commit reverted one at a time must be caught by the checks that own the defect.
cd "$(dirname "$0")/.."
run() { python3 tools/trymutant.py "$@" 2>&1 | grep -E "^(KILLED|SURVIVED|INCONCLUSIVE|patch)" | cut -c1-200; }
run mutants/revert-439c579-*.diff C08 C09 C04 C05
run mutants/revert-f981fe1-*.diff C01 C11
run mutants/revert-3703977-*.diff C01 C12
run mutants/revert-31c939e-*.diff C01
run mutants/revert-6c1df58-*.diff C14
run mutants/revert-07db4ff-*.diff C06 C05
run mutants/revert-314b466-*.diff C11
run mutants/revert-81588e0-*.diff C12
run mutants/revert-c3c310b-*.diff C11
